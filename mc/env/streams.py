"""Environment doubles: streams whose every read() consults the explorer."""
import io
import os


class Log(object):
    """Per-execution record of what the environment did."""
    __slots__ = ('reads', 'starved', 'seeks', 'bad_seek', 'steps', 'last_short')

    def __init__(self):
        self.reads = 0
        self.starved = False     # did some read in the current next() step return None / short?
        self.seeks = 0
        self.bad_seek = None
        self.steps = 0
        self.last_short = False   # the most recent read returned some but fewer octets than requested


class ScheduledCore(object):
    """Shared logic: data, position, and the schedule of answers.

    answers come from `chooser(n, label)`: 0 full | 1 pending(None) | 2.. short by r
    When `frontier` mode is used (arrival model) the chooser is not consulted.
    """

    def __init__(self, data, chooser=None, shorts='few', eof_pending=0, frontier=None, log=None):
        self.data = data
        self.pos = 0
        self.chooser = chooser
        self.shorts = shorts
        self.eof_pending = eof_pending     # number of pending polls at the very end before b''
        self.frontier = frontier           # None or current availability frontier (arrival model)
        self.log = log or Log()

    def _short_options(self, want):
        if want <= 1:
            return []
        if self.shorts == 'all':
            return list(range(1, want))
        opts = []
        for r in (1, 2, want - 1):
            if 1 <= r < want and r not in opts:
                opts.append(r)
        return opts

    def do_read(self, n):
        self.log.reads += 1
        total = len(self.data)
        if self.frontier is not None:
            avail = self.frontier - self.pos
            if avail <= 0:
                if self.frontier >= total and self.eof_pending <= 0:
                    return b''
                if self.frontier >= total:
                    self.eof_pending -= 1
                self.log.starved = True
                return None
            want = avail if (n is None or n < 0) else min(n, avail)
            if n is not None and n >= 0 and want < n and self.frontier < total:
                self.log.starved = True
            elif n is not None and n >= 0 and want < n:
                self.log.starved = True    # short at true end: decoder will retry and get EOF
            out = self.data[self.pos:self.pos + want]
            self.pos += want
            self.log.last_short = bool(n is not None and n >= 0 and 0 < want < n)
            return out
        avail = total - self.pos
        want = avail if (n is None or n < 0) else min(n, avail)
        if avail == 0:
            if self.eof_pending > 0:
                self.eof_pending -= 1
                self.log.starved = True
                return None
            return b''
        if n == 0:
            return b''
        shorts = self._short_options(want) if (n is not None and n >= 0) else []
        c = self.chooser(2 + len(shorts), 'read(%s)@%d' % (n, self.pos)) if self.chooser else 0
        if c == 0:
            out = self.data[self.pos:self.pos + want]
            self.pos += want
            if n is not None and n > want:
                self.log.starved = True   # fewer than requested because the data ends here
            return out
        self.log.starved = True
        if c == 1:
            return None
        r = shorts[c - 2]
        out = self.data[self.pos:self.pos + want - r]
        self.pos += want - r
        return out

    def do_seek(self, off, whence=os.SEEK_SET):
        self.log.seeks += 1
        if whence == os.SEEK_SET:
            new = off
        elif whence == os.SEEK_CUR:
            new = self.pos + off
        else:
            new = len(self.data) + off
        if new < 0:
            self.log.bad_seek = 'seek before start (%d)' % new
            new = 0
        if new > self.pos:
            self.log.bad_seek = 'forward seek %d -> %d' % (self.pos, new)
        self.pos = new
        return new


class SeekableNB(object):
    """Seekable, possibly non-blocking stream that is NOT an io.BytesIO."""
    kind = 'seekable'

    def __init__(self, core):
        self.core = core

    def seekable(self):
        return True

    def read(self, n=-1):
        return self.core.do_read(n)

    def seek(self, off, whence=os.SEEK_SET):
        return self.core.do_seek(off, whence)

    def tell(self):
        return self.core.pos


class NonSeekableNB(object):
    """Non-seekable raw stream; the library wraps it in CachingStreamWrapper."""
    kind = 'nonseekable'

    def __init__(self, core):
        self.core = core

    def seekable(self):
        return False

    def read(self, n=-1):
        return self.core.do_read(n)


class BytesIONB(io.BytesIO):
    """io.BytesIO subclass with scheduled read() (the library special-cases BytesIO)."""
    kind = 'bytesio'

    def __init__(self, core):
        io.BytesIO.__init__(self, core.data)
        self.core = core

    def read(self, n=-1):
        self.core.pos = io.BytesIO.tell(self)
        out = self.core.do_read(n)
        if out:
            io.BytesIO.seek(self, self.core.pos)
        return out


class ObservedSeekable(object):
    """Transparent proxy in front of a seekable stream (e.g. the library's CachingStreamWrapper over a raw
    double) that records what the decoder sees: whether the latest read was short but non-empty."""
    kind = 'observed'

    def __init__(self, inner):
        self._inner = inner
        self.last_short = False

    def seekable(self):
        return True

    def read(self, n=-1):
        r = self._inner.read(n)
        self.last_short = bool(r is not None and n is not None and n >= 0 and 0 < len(r) < n)
        return r

    def seek(self, off, whence=os.SEEK_SET):
        return self._inner.seek(off, whence)

    def tell(self):
        return self._inner.tell()

    @property
    def markedPosition(self):
        return self._inner.markedPosition

    @markedPosition.setter
    def markedPosition(self, value):
        self._inner.markedPosition = value


KINDS = {'seekable': SeekableNB, 'nonseekable': NonSeekableNB, 'bytesio': BytesIONB}
