"""C19 - container objects refine their Python prototypes under any operation history.

E3 explicit-state BFS over the public container API, every transition checked against a
list / dict model and against the reference DER encoding of the model's content.
"""
import operator

from mc.core import bfs as BFS
from mc.core.bfs import ANY
from mc.core.runner import guarded, Result, pyasn1_site, exc_text
from mc.model import x690 as M
from mc.model import universe as U
from mc.bind import pyasn1_bind as B

from pyasn1 import error as pyerr
from pyasn1.type import univ, char, useful, namedtype, tag, base as pybase
from pyasn1.codec.der import encoder as der_enc
from pyasn1.codec.ber import encoder as ber_enc
from pyasn1.codec.cer import encoder as cer_enc

PROPERTY = 'C19'
LEVEL = 'model_checking'
RULE = ('E3 breadth-first search to depth N (4 quick, 5 thorough) over operation histories on real objects: SEQUENCE OF / '
        'SET OF INTEGER (with and without declared component type), SEQUENCE / SET {a INTEGER, b OCTET STRING OPTIONAL, '
        'c BOOLEAN DEFAULT TRUE} and {b OPTIONAL, c DEFAULT}, a schemaless SEQUENCE, CHOICE {x, y, n CHOICE{p,q}}. '
        'Alphabet: mutators (__setitem__ by index/name/slice, append, extend, setComponentBy{Position,Name,Type}, sort, '
        'reverse, clear, reset, clone(cloneValueFlag=True)), readers (len, iter, in, __getitem__, getComponentBy*( '
        'instantiate=False/True within range), keys/values/items, count, index, prettyPrint/str/repr, ==, isValue, '
        'DER/BER/CER encode) and ill-formed operations (unknown name, position outside the documented range). States '
        'are merged on (model state, raw object shape). After every transition the outcome is compared with the '
        'list/dict model and a non-mutating snapshot (isValue, length, content, selected alternative) is compared '
        'with the model state; DER is compared with the reference DER of the model content whenever the encode '
        'operation is taken. Plus: every arithmetic/conversion/comparison dunder on valueless scalar schema objects '
        'must raise PyAsn1Error. Transitions = executions on the real implementation (traces_validated_against_impl).')
ASSUMPTIONS = [
    'the list/dict models of section 4/C19 of DESIGN.md (len() of SEQUENCE/SET excluded; reading at index >= len '
    'and assignment beyond len are outside the alphabet)',
    'container size bounded (<= 4 members) to keep the state space finite',
    'reference DER encoder mc/model/x690.py; CPython 3.12, PYTHONHASHSEED=0',
]
# name -> f(current length) -> (slice, replacement values)
SLICE_OPS = {
    'setslice_grow': lambda L: (slice(0, 1), [2, 1]),
    'setslice_insert': lambda L: (slice(1, 1), [2]),
    'setslice_tail': lambda L: (slice(L, None), [1]),
    'setslice_shrink': lambda L: (slice(0, 2), [1]),
    'setslice_step': lambda L: (slice(None, None, 2), [2] * len(range(0, L, 2))),
    'setslice_del': lambda L: (slice(0, 1), []),
}
UNSET = '<unset>'
LOOKUP_ERRORS = (IndexError, KeyError, ValueError)


def norm(x):
    """Normalise results of real operations to plain Python data (non-mutating)."""
    if isinstance(x, pybase.Asn1Item):
        try:
            if not x.isValue:
                return ('schema', type(x).__name__)
        except Exception as e:
            return ('isValue-raises', type(e).__name__)
        if isinstance(x, univ.Boolean):
            return bool(int(x))
        if isinstance(x, univ.Integer):
            return int(x)
        if isinstance(x, univ.OctetString):
            return x.asOctets()
        if isinstance(x, univ.Choice):
            return (x.getName(), norm(x.getComponent()))
        return ('obj', type(x).__name__)
    if isinstance(x, (list, tuple)):
        return [norm(i) for i in x]
    return x


class Subject(object):
    name = '?'

    def run(self, fn):
        try:
            return ('ok', norm(fn()))
        except pyerr.PyAsn1Error as e:
            return ('err', type(e).__name__)
        except LOOKUP_ERRORS as e:
            return ('err', type(e).__name__)
        except RecursionError as e:
            return ('leak', 'RecursionError', pyasn1_site(e))
        except Exception as e:
            return ('leak', type(e).__name__, pyasn1_site(e), str(e)[:100])

    def judge(self, label, obj1, obj2, model1, model2, outcome, expected):
        problems = []
        kind = outcome[0]
        if kind == 'leak':
            problems.append(('op.leak:' + outcome[1], '%s raised %s %s' % (label, outcome[1], outcome[3] if len(outcome) > 3 else ''),
                             'result or lookup/library error', outcome[2]))
        elif expected[0] == 'ok':
            if kind == 'err':
                problems.append(('op.refused', '%s raised %s' % (label, outcome[1]), 'succeeds', 'type.univ'))
            elif expected[1] is not ANY and not results_equal(outcome[1], expected[1]):
                problems.append(('op.result', '%s returned %r' % (label, outcome[1]), repr(expected[1]), 'type.univ'))
        elif expected[0] == 'err':
            if kind == 'ok':
                problems.append(('op.accepted_illformed', '%s returned %r' % (label, outcome[1]), 'lookup or library error', 'type.univ'))
        if kind == 'leak':
            return problems      # the state after an escaping non-library exception is not judged separately
        # state after the step
        snap = self.snapshot(obj2)
        want = self.model_snapshot(model2)
        if snap != want:
            what = 'state.after_read' if self.is_reader(label) else ('state.after_bad_op' if self.is_bad(label) else 'state')
            problems.append((what, 'after %s: %r' % (label, snap), repr(want), 'type.univ'))
        return problems

    def is_reader(self, label):
        return label.startswith('r:')

    def is_bad(self, label):
        return label.startswith('x:')

    def canon(self, obj, model):
        return (model, B.shape(obj, keep_order=True))


def results_equal(a, b):
    if isinstance(b, float) or isinstance(a, float):
        return a == b
    return a == b and type(a) == type(b) or (isinstance(a, list) and isinstance(b, list) and a == b)


# ---------------------------------------------------------------------------
# SEQUENCE OF / SET OF
# ---------------------------------------------------------------------------

class OfSubject(Subject):
    MAXLEN = 4

    def __init__(self, kind='SEQOF', typed=True):
        self.kind = kind
        self.typed = typed
        self.name = '%s-%s' % (kind, 'typed' if typed else 'untyped')
        self.T = (kind, U.INT)
        self.cls = univ.SequenceOf if kind == 'SEQOF' else univ.SetOf

    def fresh(self):
        return (self.cls(componentType=univ.Integer()) if self.typed else self.cls()), None

    def val(self, v):
        return v if self.typed else univ.Integer(v)

    def enabled(self, m):
        L = len(m) if m is not None else 0
        ops = []
        grow = L < self.MAXLEN
        if grow:
            ops += ['m:append(1)', 'm:append(2)']
            if L + 2 <= self.MAXLEN:
                ops += ['m:extend(2,1)']
            ops += ['m:setpos(%d,1)' % L]
        ops += ['m:extend()', 'm:clear()', 'm:reset()', 'm:sort()', 'm:reverse()', 'm:sortrev()', 'm:sortkeyrev()', 'm:sortkey()']
        if m is not None:
            ops += ['m:clone()']
        for i in sorted(set([0, L - 1]) if L else []):
            ops += ['m:setitem(%d,2)' % i, 'm:setitem(%d,1)' % i]
        if L:
            ops += ['m:setitem(-1,2)', 'm:setpos(0,2)']
        if L >= 2:
            ops += ['m:setslice(0,2;2,1)']
        if m is not None:
            # slice assignment with Python list semantics: growing, shrinking, inserting, appending, extended slices
            if L >= 1 and L + 1 <= self.MAXLEN:
                ops += ['m:setslice_grow()', 'm:setslice_insert()']
            if L + 1 <= self.MAXLEN:
                ops += ['m:setslice_tail()']
            if L >= 2:
                ops += ['m:setslice_shrink()']
            if L >= 3:
                ops += ['m:setslice_step()']
            if L >= 1:
                ops += ['m:setslice_del()']
        ops += ['r:len', 'r:iter', 'r:in(1)', 'r:in(2)', 'r:count(1)', 'r:isValue', 'r:der', 'r:pretty', 'r:str', 'r:repr',
                'r:eq', 'r:getpos_noinst(0)', 'r:bool', 'r:cer', 'r:ber_indef']
        if L:
            ops += ['r:getitem(0)', 'r:getitem(-1)', 'r:getpos(%d)' % (L - 1), 'r:index(1)', 'r:index(2)', 'r:getslice(0,2)']
        ops += ['x:getitem(%d)' % (-L - 1), 'x:setitem(%d,1)' % (-L - 1)]
        if self.typed:
            ops += ['x:append_wrongtype()']      # a rejected assignment must change nothing (also on a schema object)
            if L >= 2:
                # equal-length slice assignment whose LAST member is unacceptable: all or nothing
                ops += ['x:setslice_badlast()', 'x:setslice_step_badlast()']
        return ops

    def expect(self, label, m):
        L = len(m) if m is not None else 0
        lst = list(m) if m is not None else []
        name, args = parse(label)
        if name == 'append':
            return tuple(lst + [args[0]]), ('ok', ANY)
        if name == 'extend':
            return tuple(lst + list(args)), ('ok', ANY)
        if name == 'setpos':
            i, v = args
            if i == L:
                return tuple(lst + [v]), ('ok', ANY)
            lst[i] = v
            return tuple(lst), ('ok', ANY)
        if name == 'clear':
            return (), ('ok', ANY)
        if name == 'reset':
            return None, ('ok', ANY)
        if name == 'sort':
            if m is None:
                return m, ('any',)
            return tuple(sorted(lst)), ('ok', ANY)
        if name == 'reverse':
            if m is None:
                return m, ('any',)
            return tuple(reversed(lst)), ('ok', ANY)
        if name in ('sortrev', 'sortkeyrev', 'sortkey'):
            if m is None:
                return m, ('any',)
            if name == 'sortrev':
                return tuple(sorted(lst, reverse=True)), ('ok', ANY)
            if name == 'sortkey':
                return tuple(sorted(lst, key=lambda x: x % 2)), ('ok', ANY)
            # every member ties under the key: a stable sort keeps the order, also with reverse=True
            return tuple(sorted(lst, key=lambda x: 0, reverse=True)), ('ok', ANY)
        if name in ('append_wrongtype', 'setslice_badlast', 'setslice_step_badlast'):
            return m, ('err',)
        if name == 'clone':
            return m, ('ok', ANY)
        if name == 'setitem':
            i, v = args
            if label.startswith('x:'):
                return m, ('err',)
            lst[i] = v
            return tuple(lst), ('ok', ANY)
        if name == 'setslice':
            lst[0:2] = [2, 1]
            return tuple(lst), ('ok', ANY)
        if name in SLICE_OPS:
            sl, vals = SLICE_OPS[name](L)
            lst[sl] = vals
            return tuple(lst), ('ok', ANY)
        # readers
        if name == 'len':
            return m, ('ok', L)
        if name == 'iter':
            return m, ('ok', lst)
        if name == 'in':
            return m, (('ok', args[0] in lst) if m is not None else ('any',))
        if name == 'count':
            return m, (('ok', lst.count(args[0])) if m is not None else ('any',))
        if name == 'index':
            return m, (('ok', lst.index(args[0])) if args[0] in lst else ('err',))
        if name == 'isValue':
            return m, ('ok', m is not None)
        if name in ('der', 'cer', 'ber_indef'):
            if m is None:
                return m, ('any',)       # encoding of a schema object is not defined by the model
            if name == 'der':
                return m, ('ok', M.der(self.T, lst))
            return m, ('ok', ANY)
        if name in ('pretty', 'str', 'repr'):
            return m, ('ok', ANY)
        if name == 'eq':
            return m, (('ok', True) if m is not None else ('any',))
        if name == 'bool':
            return m, (('ok', bool(lst)) if m is not None else ('any',))
        if name == 'getpos_noinst':
            return m, ('ok', lst[0] if lst else None)
        if name == 'getitem':
            if label.startswith('x:'):
                return m, ('err',)
            return m, ('ok', lst[args[0]])
        if name == 'getpos':
            return m, ('ok', lst[args[0]])
        if name == 'getslice':
            return m, ('ok', lst[0:2])
        raise ValueError(label)

    def apply(self, label, obj, m):
        name, args = parse(label)
        lst = list(m) if m is not None else []
        V = self.val
        if name == 'clone':
            out = self.run(lambda: obj.clone(cloneValueFlag=True))
            if out[0] == 'ok':
                try:
                    new = obj.clone(cloneValueFlag=True)
                    return new, ('ok', None)
                except Exception:
                    pass
            return obj, out
        fns = {
            'append': lambda: obj.append(V(args[0])),
            'extend': lambda: obj.extend([V(a) for a in args]),
            'setpos': lambda: (obj.setComponentByPosition(args[0], V(args[1])), None)[1],
            'clear': lambda: (obj.clear(), None)[1],
            'reset': lambda: (obj.reset(), None)[1],
            'sort': lambda: obj.sort(),
            'reverse': lambda: obj.reverse(),
            'sortrev': lambda: obj.sort(reverse=True),
            'sortkeyrev': lambda: obj.sort(key=lambda x: 0, reverse=True),
            'sortkey': lambda: obj.sort(key=lambda x: int(x) % 2),
            'append_wrongtype': lambda: obj.append(univ.OctetString(b'zz')),
            'setslice_badlast': lambda: operator.setitem(obj, slice(0, 2), [V(2), univ.OctetString(b'zz')]),
            'setslice_step_badlast': lambda: operator.setitem(obj, slice(None, None, max(1, len(obj) - 1)), [V(2), univ.OctetString(b'zz')]),
            'setitem': lambda: operator.setitem(obj, args[0], V(args[1])),
            'setslice': lambda: operator.setitem(obj, slice(0, 2), [V(2), V(1)]),
            'setslice_grow': lambda: operator.setitem(obj, SLICE_OPS['setslice_grow'](len(obj))[0], [V(x) for x in SLICE_OPS['setslice_grow'](len(obj))[1]]),
            'setslice_insert': lambda: operator.setitem(obj, SLICE_OPS['setslice_insert'](len(obj))[0], [V(x) for x in SLICE_OPS['setslice_insert'](len(obj))[1]]),
            'setslice_tail': lambda: operator.setitem(obj, SLICE_OPS['setslice_tail'](len(obj))[0], [V(x) for x in SLICE_OPS['setslice_tail'](len(obj))[1]]),
            'setslice_shrink': lambda: operator.setitem(obj, SLICE_OPS['setslice_shrink'](len(obj))[0], [V(x) for x in SLICE_OPS['setslice_shrink'](len(obj))[1]]),
            'setslice_step': lambda: operator.setitem(obj, SLICE_OPS['setslice_step'](len(obj))[0], [V(x) for x in SLICE_OPS['setslice_step'](len(obj))[1]]),
            'setslice_del': lambda: operator.setitem(obj, SLICE_OPS['setslice_del'](len(obj))[0], [V(x) for x in SLICE_OPS['setslice_del'](len(obj))[1]]),
            'len': lambda: len(obj),
            'iter': lambda: list(obj),
            'in': lambda: args[0] in obj,
            'count': lambda: obj.count(args[0]),
            'index': lambda: obj.index(args[0]),
            'isValue': lambda: obj.isValue,
            'der': lambda: der_enc.encode(obj),
            'cer': lambda: cer_enc.encode(obj),
            'ber_indef': lambda: ber_enc.encode(obj, defMode=False),
            'pretty': lambda: (obj.prettyPrint(), None)[1],
            'str': lambda: (str(obj), None)[1],
            'repr': lambda: (repr(obj), None)[1],
            'eq': lambda: obj == lst,
            'bool': lambda: bool(obj),
            'getpos_noinst': lambda: obj.getComponentByPosition(0, default=None, instantiate=False),
            'getitem': lambda: obj[args[0]],
            'getpos': lambda: obj.getComponentByPosition(args[0]),
            'getslice': lambda: obj[0:2],
        }
        return obj, self.run(fns[name])

    def judge(self, label, obj1, obj2, model1, model2, outcome, expected):
        if expected[0] == 'any':
            expected = ('ok', ANY) if outcome[0] == 'ok' else ('err',)
        return Subject.judge(self, label, obj1, obj2, model1, model2, outcome, expected)

    def snapshot(self, obj):
        try:
            isv = obj.isValue
            n = len(obj)
            content = []
            for i in range(n):
                content.append(norm(obj.getComponentByPosition(i, default=None, instantiate=False)))
            return (isv, n, content)
        except Exception as e:
            return ('snapshot-raises', type(e).__name__, str(e)[:80])

    def model_snapshot(self, m):
        if m is None:
            return (False, 0, [])
        return (True, len(m), list(m))


def parse(label):
    body = label.split(':', 1)[1]
    if '(' not in body:
        return body, ()
    name, rest = body.split('(', 1)
    rest = rest[:-1]
    if not rest:
        return name, ()
    args = []
    for part in rest.replace(';', ',').split(','):
        part = part.strip()
        try:
            args.append(int(part))
        except ValueError:
            args.append(part)
    return name, tuple(args)


# ---------------------------------------------------------------------------
# SEQUENCE / SET with declared components
# ---------------------------------------------------------------------------

class RecordSubject(Subject):
    VALUES = {'a': (1, 2), 'b': (b'x', b''), 'c': (False, True)}
    TYPES = {'a': U.INT, 'b': U.OCTS, 'c': U.BOOL}

    def __init__(self, kind='SEQ', fields=('a', 'b', 'c')):
        self.kind = kind
        self.fields = fields
        self.name = '%s-%s' % (kind, ''.join(fields))
        opts = {'a': ('R', None), 'b': ('O', None), 'c': ('D', True)}
        self.T = (kind, tuple((f, self.TYPES[f], opts[f][0], opts[f][1]) for f in fields))
        self.cls = univ.Sequence if kind == 'SEQ' else univ.Set

    def fresh(self):
        nts = []
        for f in self.fields:
            if f == 'a':
                nts.append(namedtype.NamedType('a', univ.Integer()))
            elif f == 'b':
                nts.append(namedtype.OptionalNamedType('b', univ.OctetString()))
            else:
                nts.append(namedtype.DefaultedNamedType('c', univ.Boolean(True)))
        # a never-assigned record object is a dict with every key unset (a value iff nothing is REQUIRED);
        # only reset() produces a schema object
        return self.cls(componentType=namedtype.NamedTypes(*nts)), tuple(UNSET for f in self.fields)

    def enabled(self, m):
        ops = []
        n = len(self.fields)
        for i, f in enumerate(self.fields):
            v0, v1 = self.VALUES[f]
            ops += ['m:set_name(%s,0)' % f, 'm:setitem_name(%s,1)' % f, 'm:set_pos(%d,1)' % i, 'm:setitem_pos(%d,0)' % i]
            if self.kind == 'SET':
                ops += ['m:set_type(%s,0)' % f]
        if 'c' in self.fields:
            ops += ['m:set_default(c)']
        ops += ['m:clear()', 'm:reset()']
        if m is None:
            # a reset (schema) object: reads are not reads of existing members; only status is observed
            return ops + ['r:isValue', 'r:repr']
        ops += ['m:clone()']
        ops += ['r:iter', 'r:keys', 'r:values', 'r:items', 'r:in(%s)' % self.fields[0], 'r:in(zz)', 'r:isValue', 'r:der',
                'r:cer', 'r:ber_indef', 'r:pretty', 'r:str', 'r:repr', 'r:eq_self', 'r:bool']
        for i, f in enumerate(self.fields):
            ops += ['r:getitem_name(%s)' % f, 'r:getpos_noinst(%d)' % i, 'r:getname_noinst(%s)' % f, 'r:getitem_pos(%d)' % i]
        ops += ['x:getitem_name(zz)', 'x:set_name(zz,0)', 'x:getitem_pos(%d)' % (n + 1), 'x:setitem_pos(%d,0)' % (n + 1),
                'x:set_pos(%d,0)' % (n + 1)]
        return ops

    def mdict(self, m):
        return dict(zip(self.fields, m)) if m is not None else dict((f, UNSET) for f in self.fields)

    def mk(self, d):
        return tuple(d[f] for f in self.fields)

    def content(self, m):
        """abstract value dict or None when not a value"""
        if m is None:
            return None
        d = self.mdict(m)
        out = {}
        for f in self.fields:
            if d[f] is not UNSET and d[f] != UNSET:
                out[f] = d[f]
            elif f == 'a':
                return None
            elif f == 'c':
                out[f] = True
        return out

    def expect(self, label, m):
        name, args = parse(label)
        d = self.mdict(m)
        if label.startswith('x:'):
            return m, ('err',)
        if name in ('set_name', 'setitem_name', 'set_type'):
            f, k = args
            d[f] = self.VALUES[f][k]
            return self.mk(d), ('ok', ANY)
        if name in ('set_pos', 'setitem_pos'):
            i, k = args
            f = self.fields[i]
            d[f] = self.VALUES[f][k]
            return self.mk(d), ('ok', ANY)
        if name == 'set_default':
            d['c'] = True
            return self.mk(d), ('ok', ANY)
        if name == 'clear':
            return self.mk(dict((f, UNSET) for f in self.fields)), ('ok', ANY)
        if name == 'reset':
            return None, ('ok', ANY)
        if name == 'clone':
            return m, ('ok', ANY)
        if name in ('iter', 'keys'):
            return m, ('ok', list(self.fields))
        if name == 'in':
            return m, ('ok', args[0] in self.fields)
        if name == 'isValue':
            return m, ('ok', self.content(m) is not None)
        if name in ('der', 'cer', 'ber_indef'):
            c = self.content(m)
            if c is None:
                return m, ('any',)
            return m, ('ok', M.der(self.T, c) if name == 'der' else ANY)
        if name in ('pretty', 'str', 'repr', 'values', 'items', 'eq_self', 'bool'):
            return m, (('ok', ANY) if (m is not None or name in ('repr',)) else ('any',))
        if name in ('getitem_name', 'getitem_pos'):
            f = args[0] if name == 'getitem_name' else self.fields[args[0]]
            if d[f] != UNSET:
                return m, ('ok', d[f])
            return m, ('ok', ANY)
        if name in ('getpos_noinst', 'getname_noinst'):
            f = args[0] if name == 'getname_noinst' else self.fields[args[0]]
            if d[f] == UNSET and f == 'c':
                return m, ('ok', ANY)         # unset DEFAULT: absent or the (materialised) default
            return m, ('ok', d[f] if d[f] != UNSET else None)
        raise ValueError(label)

    def apply(self, label, obj, m):
        name, args = parse(label)
        if name == 'clone':
            try:
                return obj.clone(cloneValueFlag=True), ('ok', None)
            except Exception:
                return obj, self.run(lambda: obj.clone(cloneValueFlag=True))

        def val(f, k):
            return self.VALUES[f][k] if f in self.VALUES else 0

        def fld(i):
            return self.fields[i] if i < len(self.fields) else 'a'
        tagsets = {'a': univ.Integer.tagSet, 'b': univ.OctetString.tagSet, 'c': univ.Boolean.tagSet}
        fns = {
            'set_name': lambda: (obj.setComponentByName(args[0], val(args[0], args[1])), None)[1],
            'setitem_name': lambda: operator.setitem(obj, args[0], val(args[0], args[1])),
            'set_pos': lambda: (obj.setComponentByPosition(args[0], val(fld(args[0]), args[1])), None)[1],
            'setitem_pos': lambda: operator.setitem(obj, args[0], val(fld(args[0]), args[1])),
            'set_type': lambda: (obj.setComponentByType(tagsets[args[0]], val(args[0], args[1])), None)[1],
            'set_default': lambda: (obj.setComponentByName('c'), None)[1],
            'clear': lambda: (obj.clear(), None)[1],
            'reset': lambda: (obj.reset(), None)[1],
            'iter': lambda: list(obj),
            'keys': lambda: list(obj.keys()),
            'values': lambda: (list(obj.values()), None)[1],
            'items': lambda: (list(obj.items()), None)[1],
            'in': lambda: args[0] in obj,
            'isValue': lambda: obj.isValue,
            'der': lambda: der_enc.encode(obj),
            'cer': lambda: (cer_enc.encode(obj), None)[1],
            'ber_indef': lambda: (ber_enc.encode(obj, defMode=False), None)[1],
            'pretty': lambda: (obj.prettyPrint(), None)[1],
            'str': lambda: (str(obj), None)[1],
            'repr': lambda: (repr(obj), None)[1],
            'eq_self': lambda: (obj == obj, None)[1],
            'bool': lambda: (bool(obj), None)[1],
            'getitem_name': lambda: obj[args[0]],
            'getitem_pos': lambda: obj[args[0]],
            'getpos_noinst': lambda: obj.getComponentByPosition(args[0], default=None, instantiate=False),
            'getname_noinst': lambda: obj.getComponentByName(args[0], default=None, instantiate=False),
        }
        out = self.run(fns[name])
        if out[0] == 'ok' and isinstance(out[1], tuple) and out[1] and out[1][0] == 'schema':
            out = ('ok', ANY)      # a placeholder for an unset component
        return obj, out

    def judge(self, label, obj1, obj2, model1, model2, outcome, expected):
        if expected[0] == 'any':
            expected = ('ok', ANY) if outcome[0] == 'ok' else ('err',)
        if outcome[0] == 'ok' and outcome[1] is ANY:
            if expected[0] == 'ok':
                expected = ('ok', ANY)
        return Subject.judge(self, label, obj1, obj2, model1, model2, outcome, expected)

    def snapshot(self, obj):
        try:
            isv = obj.isValue
            content = []
            for i, f in enumerate(self.fields):
                c = obj.getComponentByPosition(i, default=None, instantiate=False)
                content.append((True if f == 'c' else UNSET) if c is None else norm(c))
            return (isv, content)
        except Exception as e:
            return ('snapshot-raises', type(e).__name__, str(e)[:80])

    def model_snapshot(self, m):
        d = self.mdict(m)
        return (self.content(m) is not None, [(True if (f == 'c' and d[f] == UNSET) else d[f]) for f in self.fields])


# ---------------------------------------------------------------------------
# schemaless SEQUENCE (dynamic field names)
# ---------------------------------------------------------------------------

class DynSubject(Subject):
    name = 'SEQ-dynamic'
    MAXLEN = 3

    def fresh(self):
        return univ.Sequence(), None

    def T_of(self, m):
        return ('SEQ', tuple(('field-%d' % i, U.INT, 'R', None) for i in range(len(m))))

    def enabled(self, m):
        L = len(m) if m is not None else 0
        ops = []
        if L < self.MAXLEN:
            ops += ['m:set_pos(%d,1)' % L, 'm:set_pos(%d,2)' % L]
        if L:
            ops += ['m:setitem_name(field-0,2)', 'm:set_pos(0,1)']
        ops += ['m:clear()', 'm:reset()']
        if m is None:
            return ops + ['r:isValue', 'r:repr']
        ops += ['m:clone()']
        ops += ['r:len', 'r:iter', 'r:in(field-0)', 'r:isValue', 'r:der', 'r:pretty', 'r:repr', 'r:values']
        if L:
            ops += ['r:getitem_name(field-0)', 'r:getitem_pos(%d)' % (L - 1), 'r:getpos_noinst(0)']
        ops += ['x:getitem_name(zz)', 'x:set_pos(%d,1)' % (L + 1)]
        return ops

    def expect(self, label, m):
        name, args = parse(label)
        lst = list(m) if m is not None else []
        L = len(lst)
        if label.startswith('x:'):
            return m, ('err',)
        if name == 'set_pos':
            i, v = args
            if i == L:
                return tuple(lst + [v]), ('ok', ANY)
            lst[i] = v
            return tuple(lst), ('ok', ANY)
        if name == 'setitem_name':
            lst[0] = args[1]
            return tuple(lst), ('ok', ANY)
        if name == 'clear':
            return (), ('ok', ANY)
        if name == 'reset':
            return None, ('ok', ANY)
        if name == 'clone':
            return m, ('ok', ANY)
        if name == 'len':
            return m, ('ok', L)
        if name == 'iter':
            return m, ('ok', ['field-%d' % i for i in range(L)])
        if name == 'in':
            return m, ('ok', L > 0)
        if name == 'isValue':
            return m, ('ok', m is not None)
        if name == 'der':
            if m is None:
                return m, ('any',)
            return m, ('ok', M.der(self.T_of(m), dict(('field-%d' % i, v) for i, v in enumerate(lst))))
        if name in ('pretty', 'repr', 'values'):
            return m, (('ok', ANY) if m is not None or name == 'repr' else ('any',))
        if name == 'getitem_name':
            return m, ('ok', lst[0])
        if name == 'getitem_pos':
            return m, ('ok', lst[args[0]])
        if name == 'getpos_noinst':
            return m, ('ok', lst[0] if lst else None)
        raise ValueError(label)

    def apply(self, label, obj, m):
        name, args = parse(label)
        if name == 'clone':
            try:
                return obj.clone(cloneValueFlag=True), ('ok', None)
            except Exception:
                return obj, self.run(lambda: obj.clone(cloneValueFlag=True))
        fns = {
            'set_pos': lambda: (obj.setComponentByPosition(args[0], univ.Integer(args[1])), None)[1],
            'setitem_name': lambda: operator.setitem(obj, args[0], univ.Integer(args[1])),
            'clear': lambda: (obj.clear(), None)[1],
            'reset': lambda: (obj.reset(), None)[1],
            'len': lambda: len(obj),
            'iter': lambda: list(obj),
            'in': lambda: args[0] in obj,
            'isValue': lambda: obj.isValue,
            'der': lambda: der_enc.encode(obj),
            'pretty': lambda: (obj.prettyPrint(), None)[1],
            'repr': lambda: (repr(obj), None)[1],
            'values': lambda: (list(obj.values()), None)[1],
            'getitem_name': lambda: obj[args[0]],
            'getitem_pos': lambda: obj[args[0]],
            'getpos_noinst': lambda: obj.getComponentByPosition(0, default=None, instantiate=False),
        }
        return obj, self.run(fns[name])

    def judge(self, label, obj1, obj2, model1, model2, outcome, expected):
        if expected[0] == 'any':
            expected = ('ok', ANY) if outcome[0] == 'ok' else ('err',)
        return Subject.judge(self, label, obj1, obj2, model1, model2, outcome, expected)

    def snapshot(self, obj):
        try:
            isv = obj.isValue
            content = []
            i = 0
            while True:
                c = obj.getComponentByPosition(i, default=None, instantiate=False)
                if c is None:
                    break
                content.append(norm(c))
                i += 1
                if i > 8:
                    break
            return (isv, content)
        except Exception as e:
            return ('snapshot-raises', type(e).__name__, str(e)[:80])

    def model_snapshot(self, m):
        return (m is not None, list(m) if m is not None else [])


# ---------------------------------------------------------------------------
# CHOICE
# ---------------------------------------------------------------------------

INNER_T = ('CHOICE', (('p', U.I(5, U.INT)), ('q', U.I(6, U.BOOL))))
CHOICE_T = ('CHOICE', (('x', U.INT), ('y', U.OCTS), ('n', INNER_T)))


class ChoiceSubject(Subject):
    name = 'CHOICE'
    ALTS = ('x', 'y', 'n')

    def fresh(self):
        return B.to_spec(CHOICE_T, cache=False).clone(), None

    def inner(self, v):
        o = B.to_spec(INNER_T, cache=False).clone()
        o['p'] = v
        return o

    def enabled(self, m):
        ops = ['m:set_name(x,1)', 'm:setitem(x,2)', 'm:set_name(y,0)', 'm:set_pos(1,1)', 'm:set_type(x,2)', 'm:set_n(1)',
               'm:set_n(2)', 'm:clear()', 'm:reset()', 'm:clone()',
               # the same alternative addressed from the end, Python style (the implementation accepts it)
               'm:set_posneg(2,0)']
        ops += ['r:len', 'r:iter', 'r:keys', 'r:values', 'r:items', 'r:in(x)', 'r:in(y)', 'r:isValue', 'r:der', 'r:getName',
                'r:getComponent', 'r:pretty', 'r:str', 'r:repr', 'r:bool', 'r:eq']
        for i, a in enumerate(self.ALTS):
            ops += ['r:getitem(%s)' % a, 'r:getpos_noinst(%d)' % i]
        ops += ['x:getitem(zz)', 'x:set_name(zz,1)', 'x:set_pos(7,1)']
        return ops

    YV = (b'a', b'bc')

    def expect(self, label, m):
        name, args = parse(label)
        if label.startswith('x:'):
            return m, ('err',)
        if name == 'set_name':
            a, k = args
            return (a, k if a == 'x' else self.YV[k]), ('ok', ANY)
        if name == 'setitem':
            return ('x', args[1]), ('ok', ANY)
        if name in ('set_pos', 'set_posneg'):
            return ('y', self.YV[args[1]]), ('ok', ANY)
        if name == 'set_type':
            return ('x', args[1]), ('ok', ANY)
        if name == 'set_n':
            return ('n', ('p', args[0])), ('ok', ANY)
        if name in ('clear', 'reset'):
            return None, ('ok', ANY)
        if name == 'clone':
            return m, ('ok', ANY)
        if name == 'len':
            return m, ('ok', 1 if m else 0)
        if name in ('iter', 'keys'):
            return m, ('ok', [m[0]] if m else [])
        if name == 'values':
            return m, ('ok', [m[1]] if m else [])
        if name == 'items':
            return m, ('ok', ANY)
        if name == 'in':
            return m, ('ok', bool(m) and m[0] == args[0])
        if name == 'isValue':
            return m, ('ok', m is not None)
        if name == 'der':
            return m, (('ok', M.der(CHOICE_T, m)) if m else ('any',))
        if name == 'getName':
            return m, (('ok', m[0]) if m else ('err',))
        if name == 'getComponent':
            return m, (('ok', m[1]) if m else ('err',))
        if name in ('pretty', 'str', 'repr', 'bool', 'eq'):
            return m, (('ok', ANY) if m or name == 'repr' else ('any',))
        if name == 'getitem':
            if m and m[0] == args[0]:
                return m, ('ok', m[1])
            return m, ('ok', ANY)          # reading a non-selected alternative: placeholder, no change
        if name == 'getpos_noinst':
            a = self.ALTS[args[0]]
            return m, ('ok', m[1] if (m and m[0] == a) else None)
        raise ValueError(label)

    def apply(self, label, obj, m):
        name, args = parse(label)
        if name == 'clone':
            try:
                return obj.clone(cloneValueFlag=True), ('ok', None)
            except Exception:
                return obj, self.run(lambda: obj.clone(cloneValueFlag=True))
        fns = {
            'set_name': lambda: (obj.setComponentByName(args[0], (args[1] if args[0] != 'y' else self.YV[args[1]])), None)[1],
            'setitem': lambda: operator.setitem(obj, args[0], args[1]),
            'set_pos': lambda: (obj.setComponentByPosition(args[0], self.YV[args[1]] if args[0] == 1 else args[1]), None)[1],
            'set_posneg': lambda: (obj.setComponentByPosition(-args[0], self.YV[args[1]]), None)[1],
            'set_type': lambda: (obj.setComponentByType(univ.Integer.tagSet, args[1]), None)[1],
            'set_n': lambda: (obj.setComponentByName('n', self.inner(args[0])), None)[1],
            'clear': lambda: (obj.clear(), None)[1],
            'reset': lambda: (obj.reset(), None)[1],
            'len': lambda: len(obj),
            'iter': lambda: list(obj),
            'keys': lambda: list(obj.keys()),
            'values': lambda: list(obj.values()),
            'items': lambda: (list(obj.items()), None)[1],
            'in': lambda: args[0] in obj,
            'isValue': lambda: obj.isValue,
            'der': lambda: der_enc.encode(obj),
            'getName': lambda: obj.getName(),
            'getComponent': lambda: obj.getComponent(),
            'pretty': lambda: (obj.prettyPrint(), None)[1],
            'str': lambda: (str(obj), None)[1],
            'repr': lambda: (repr(obj), None)[1],
            'bool': lambda: (bool(obj), None)[1],
            'eq': lambda: (obj == 1, None)[1],
            'getitem': lambda: obj[args[0]],
            'getpos_noinst': lambda: obj.getComponentByPosition(args[0], default=None, instantiate=False),
        }
        out = self.run(fns[name])
        if out[0] == 'ok' and isinstance(out[1], tuple) and out[1] and out[1][0] == 'schema':
            out = ('ok', ANY)
        return obj, out

    def judge(self, label, obj1, obj2, model1, model2, outcome, expected):
        if expected[0] == 'any':
            expected = ('ok', ANY) if outcome[0] == 'ok' else ('err',)
        if outcome[0] == 'ok' and outcome[1] is ANY and expected[0] == 'ok':
            expected = ('ok', ANY)
        return Subject.judge(self, label, obj1, obj2, model1, model2, outcome, expected)

    def snapshot(self, obj):
        try:
            isv = obj.isValue
        except Exception as e:
            isv = ('isValue-raises', type(e).__name__)
        try:
            held = []
            for i, a in enumerate(self.ALTS):
                c = obj.getComponentByPosition(i, default=None, instantiate=False)
                if c is not None:
                    nv = norm(c)
                    if isinstance(nv, tuple) and nv and nv[0] == 'schema':
                        continue          # a placeholder is not a held alternative
                    held.append((a, nv))
            return (isv, held)
        except Exception as e:
            return ('snapshot-raises', type(e).__name__, str(e)[:80])

    def model_snapshot(self, m):
        return (m is not None, [m] if m else [])


SUBJECTS = [
    lambda: OfSubject('SEQOF', True), lambda: OfSubject('SETOF', True), lambda: OfSubject('SEQOF', False),
    lambda: RecordSubject('SEQ', ('a', 'b', 'c')), lambda: RecordSubject('SET', ('a', 'b', 'c')),
    lambda: RecordSubject('SEQ', ('b', 'c')), lambda: DynSubject(), lambda: ChoiceSubject(),
]


# ---------------------------------------------------------------------------
# scalar schema objects
# ---------------------------------------------------------------------------

SCALAR_SCHEMAS = [univ.Integer, univ.Boolean, univ.Enumerated, univ.OctetString, univ.BitString, univ.ObjectIdentifier,
                  univ.Real, univ.Null, char.UTF8String, char.PrintableString, useful.GeneralizedTime, univ.Any]
UNARY = ['__int__', '__float__', '__abs__', '__neg__', '__pos__', '__invert__', '__len__', '__iter__', '__str__',
         '__bytes__', '__hash__', '__bool__', '__index__', '__trunc__', '__floor__', '__ceil__', '__round__',
         '__reversed__']
BINARY = ['__add__', '__radd__', '__sub__', '__rsub__', '__mul__', '__rmul__', '__mod__', '__rmod__', '__pow__', '__rpow__',
          '__floordiv__', '__rfloordiv__', '__truediv__', '__rtruediv__', '__divmod__', '__rdivmod__', '__lshift__',
          '__rshift__', '__and__', '__rand__', '__or__', '__ror__', '__xor__', '__rxor__', '__eq__', '__ne__', '__lt__',
          '__le__', '__gt__', '__ge__', '__contains__', '__getitem__']
NAMED = ['asOctets', 'asNumbers', 'asInteger', 'asBinary', 'asTuple', 'prettyPrint', 'asDateTime', 'isPrefixOf']


def scalar_schema_checks(R):
    idx = 0
    for cls in SCALAR_SCHEMAS:
        for opname in UNARY + BINARY + NAMED:
            obj = cls()
            if not any(opname in k.__dict__ for k in cls.__mro__ if k is not object):
                continue
            meth = None if opname == 'asDateTime' else getattr(obj, opname)
            if meth is None and opname != 'asDateTime':
                continue          # e.g. __hash__ = None: the type is unhashable by design
            idx += 1
            R.evaluations += 1
            R.nontrivial((cls.__name__, opname))
            args = ()
            if opname in BINARY or opname == 'isPrefixOf':
                args = (1,) if cls not in (univ.OctetString, char.UTF8String, char.PrintableString, univ.Any, univ.Null,
                                           useful.GeneralizedTime) else (b'a' if cls in (univ.OctetString, univ.Any, univ.Null) else 'a',)
                if cls is univ.ObjectIdentifier:
                    args = ((1, 2),)
                if opname == '__getitem__':
                    args = (0,)
            feats = {'scalar_schema', 'cls:' + cls.__name__, 'op:' + opname}
            rec = {'subject': 'scalar-schema', 'cls': cls.__name__, 'op': opname}
            try:
                if opname == 'asDateTime':
                    r = obj.asDateTime
                else:
                    r = meth(*args)
                    if opname == '__iter__' or opname == '__reversed__':
                        r = list(r)
            except pyerr.PyAsn1Error:
                R.features['scalar_schema.refused'] += 1
                continue
            except Exception as e:
                R.violation('scalar.leak:' + type(e).__name__, rec, '%s().%s%r raised %s' % (cls.__name__, opname, args, exc_text(e)),
                            'PyAsn1Error', pyasn1_site(e), feats, idx)
                continue
            if r is NotImplemented:
                R.features['scalar_schema.notimplemented'] += 1
                continue
            if r is pybase.noValue or (isinstance(r, pybase.Asn1Item) and not r.isValue):
                R.features['scalar_schema.returned_schema_object'] += 1     # not data
                continue
            R.violation('scalar.returned_data', rec, '%s().%s%r returned %r' % (cls.__name__, opname, args, r),
                        'PyAsn1Error', 'type.base', feats, idx)


def explore(subject, depth, R, si):
    def on_transition(hist, label, obj, model, outcome, expected, problems):
        R.evaluations += 1
        if len(hist) >= 1:
            R.nontrivial((subject.name, hist, label))
        for clause, observed, exp, site in problems:
            feats = {'subject:' + subject.name, 'op:' + label.split(':', 1)[1].split('(')[0],
                     'kind:' + {'m': 'mutator', 'r': 'reader', 'x': 'illformed'}[label[0]], 'depth:%d' % (len(hist) + 1)}
            if hist:
                feats.add('prev:' + hist[-1].split(':', 1)[1].split('(')[0])
            R.violation(clause, {'subject': subject.name, 'history': list(hist), 'op': label},
                        'history %s: %s' % (' ; '.join(h.split(':', 1)[1] for h in hist) or '<fresh>', observed), exp, site,
                        feats, si * 1000000 + len(hist) * 1000)
    stats = BFS.bfs(subject, depth, on_transition)
    R.extra['states'] += stats['states']
    R.extra['transitions'] += stats['transitions']
    R.extra['traces_validated_against_impl'] += stats['transitions']
    R.extra_max['max_depth'] = max(R.extra_max.get('max_depth', 0), stats['max_depth'])
    R.extra['capped'] += stats['capped']
    R.sets['distinct_outcomes'] |= set('%s/%s:%s' % (subject.name, a, b) for a, b in stats['outcomes'])
    R.features['states:' + subject.name] += stats['states']
    R.sample({'subject': subject.name, 'states': stats['states'], 'transitions': stats['transitions'],
              'example_history': ['append(1)', 'extend(2,1)', 'sort()', 'der'] if 'OF' in subject.name else ['set_name(a,0)', 'der']})


def shard(tier, i, n, seed):
    R = Result()
    depth = 4 if tier == 'quick' else 5
    jobs = list(range(len(SUBJECTS))) + ['scalars']
    for j, job in enumerate(jobs):
        if (j + seed) % n != i:
            continue
        if job == 'scalars':
            guarded(R, lambda: scalar_schema_checks(R), {'subject': 'scalar-schema'}, {'scalar_schema'}, j)
        else:
            guarded(R, lambda: explore(SUBJECTS[job](), depth, R, j), {'subject': SUBJECTS[job]().name}, {'bfs'}, j)
    return R


def replay(case):
    if case.get('subject') == 'scalar-schema':
        R = Result()
        scalar_schema_checks(R)
        return [v for v in R.violations if v['case']['cls'] == case['cls'] and v['case']['op'] == case['op']]
    for mk in SUBJECTS:
        s = mk()
        if s.name == case['subject']:
            obj, model = BFS.replay(s, tuple(case['history']))
            model2, expected = s.expect(case['op'], model)
            obj2, outcome = s.apply(case['op'], obj, model)
            probs = s.judge(case['op'], obj, obj2, model, model2, outcome, expected)
            return [{'clause': p[0], 'observed': p[1], 'expected': p[2]} for p in probs]
    return []
