"""C18 - open types (ANY DEFINED BY) resolve by governing value and round-trip (E1)."""
import itertools

from mc.checks import codec_matrix as CM
from mc.core.runner import guarded, Result, pyasn1_site, exc_text
from mc.model import x690 as M
from mc.model import forms as F
from mc.model import universe as U
from mc.bind import pyasn1_bind as B

from pyasn1.type import univ, namedtype, opentype, tag
from pyasn1.codec.ber import encoder as ber_enc, decoder as ber_dec
from pyasn1.codec.cer import encoder as cer_enc, decoder as cer_dec
from pyasn1.codec.der import encoder as der_enc, decoder as der_dec

PROPERTY = 'C18'
LEVEL = 'exploration'
RULE = ('E1 exhaustive product: container {SEQUENCE, SET} x governor type {INTEGER, OBJECT IDENTIFIER} x open field shape '
        '{ANY, [3] IMPLICIT ANY, [3] EXPLICIT ANY, SET OF / SEQUENCE OF (tagged) ANY, the same with a user subclass of ANY as member type} x 10 mapped inner types (INTEGER, OCTET '
        'STRING, BOOLEAN, SEQUENCE{a,b OPT}, SEQUENCE OF INTEGER, [5] EXPLICIT INTEGER, SET OF OCTET STRING, empty '
        'SEQUENCE) x 2 inner values x governing value {mapped, unmapped} x codec {BER definite, BER indefinite, CER, '
        'DER} x decodeOpenTypes {on, off} x openTypes override {absent, present and disagreeing with the default map, present but silent about this governing value, schema map filled in after the schema was built} x field declaration {both mandatory; open type field OPTIONAL and present; governing field DEFAULT and holding its default; governing field OPTIONAL and absent (field must stay raw); a second open type field governed by an unmapped value}. '
        'Oracle: with resolution on and a mapped governing value the field reads back as the inner abstract value '
        'under the mapped type; otherwise the field holds exactly the complete encoding (same codec) of the inner '
        'value. Non-trivial = every case; distinct = digest of the full configuration.')
ASSUMPTIONS = [
    'raw field octets are judged by the independent reader (must denote the inner value as one complete TLV) '
    'and must occur verbatim in the outer encoding',
    'CPython 3.12, PYTHONHASHSEED=0',
]

INNER = [
    (U.INT, [12, -129]),
    (U.OCTS, [b'quick', b'']),
    (U.BOOL, [True, False]),
    (('SEQ', (('a', U.INT, 'R', None), ('b', U.BOOL, 'O', None))), [{'a': 1, 'b': True}, {'a': 2}]),
    (('SEQOF', U.INT), [[1, 2], []]),
    (U.E(5, U.INT), [7, 0]),
    (('SETOF', U.OCTS), [[b'b', b'a'], [b'x']]),
    (('SEQ', ()), [{}]),
    # inner types whose own outer tag coincides with the tag of a tagged open-type field
    (U.I(3, U.INT), [5]),
    (U.E(3, U.OCTS), [b'in']),
]
CODECS = {
    'ber-def': (lambda o, **kw: ber_enc.encode(o, **kw), ber_dec.decode, 'der'),
    'ber-indef': (lambda o, **kw: ber_enc.encode(o, defMode=False, **kw), ber_dec.decode, 'indef'),
    'cer': (lambda o, **kw: cer_enc.encode(o, **kw), cer_dec.decode, 'cer'),
    'der': (lambda o, **kw: der_enc.encode(o, **kw), der_dec.decode, 'der'),
}
GOV = {
    'int': (univ.Integer, lambda k: k + 1),
    'oid': (univ.ObjectIdentifier, lambda k: (1, 3, 6, 1, k + 1)),
}
UNMAPPED = {'int': 99, 'oid': (1, 3, 6, 1, 99)}


def field_spec(shape):
    t3 = tag.Tag(tag.tagClassContext, tag.tagFormatSimple, 3)
    if shape == 'any':
        return univ.Any()
    if shape == 'any-implicit':
        return univ.Any().subtype(implicitTag=t3)
    if shape == 'any-explicit':
        return univ.Any().subtype(explicitTag=t3)
    if shape == 'setof-any':
        return univ.SetOf(componentType=univ.Any())
    if shape == 'seqof-any':
        return univ.SequenceOf(componentType=univ.Any())
    if shape == 'setof-any-implicit':
        return univ.SetOf(componentType=univ.Any().subtype(implicitTag=t3))
    if shape == 'seqof-any-explicit':
        return univ.SequenceOf(componentType=univ.Any().subtype(explicitTag=t3))
    if shape == 'setof-anysub-implicit':
        # the member type is a user's subclass of ANY (the usual way of naming it: AttributeValue ::= ANY)
        return univ.SetOf(componentType=AttributeValue().subtype(implicitTag=t3))
    if shape == 'seqof-anysub':
        return univ.SequenceOf(componentType=AttributeValue())
    raise ValueError(shape)


class AttributeValue(univ.Any):
    pass


def make_schema(container, gov, shape, default_map, fmode='req', govval=None):
    govcls, _ = GOV[gov]
    ot = opentype.OpenType('id', default_map)
    cls = univ.Sequence if container == 'seq' else univ.Set
    idt = namedtype.DefaultedNamedType('id', govcls(govval)) if fmode == 'default-id' else \
        namedtype.OptionalNamedType('id', govcls()) if fmode == 'absent-id' else namedtype.NamedType('id', govcls())
    blobcls = namedtype.OptionalNamedType if fmode == 'opt-blob' else namedtype.NamedType
    fields = [idt, blobcls('blob', field_spec(shape), openType=ot)]
    if fmode == 'two-open':
        # a second open type field with its own governor, which will hold a value the maps do not know
        t8 = tag.Tag(tag.tagClassContext, tag.tagFormatSimple, 8)
        t9 = tag.Tag(tag.tagClassContext, tag.tagFormatSimple, 9)
        fields += [namedtype.NamedType('id2', univ.Integer().subtype(implicitTag=t8)),
                   namedtype.NamedType('blob2', univ.Any().subtype(explicitTag=t9), openType=opentype.OpenType('id2', default_map))]
    return cls(componentType=namedtype.NamedTypes(*fields))


def configs():
    for container in ('seq', 'set'):
        for gov in ('int', 'oid'):
            for shape in ('any', 'any-implicit', 'any-explicit', 'setof-any', 'seqof-any', 'setof-any-implicit',
                          'seqof-any-explicit', 'setof-anysub-implicit', 'seqof-anysub'):
                for k, (IT, vals) in enumerate(INNER):
                    for iv in vals:
                        for mapped in (True, False):
                            for codec in CODECS:
                                for resolve in (True, False):
                                    for override in (False, True, 'partial', 'late'):
                                        if override in ('partial', 'late') and not (resolve and mapped):
                                            continue
                                        yield container, gov, shape, k, IT, iv, mapped, codec, resolve, override, 'req'
                                        if resolve and mapped and override is False:
                                            # the open type field OPTIONAL (and present); the governing field DEFAULT and
                                            # holding its default (so no encoder sends it)
                                            yield container, gov, shape, k, IT, iv, mapped, codec, resolve, override, 'opt-blob'
                                            yield container, gov, shape, k, IT, iv, mapped, codec, resolve, override, 'default-id'
                                            # the governing field OPTIONAL and absent: nothing to resolve by, the field stays raw
                                            yield container, gov, shape, k, IT, iv, mapped, codec, resolve, override, 'absent-id'
                                            # a second open type field governed by an unmapped value after one that resolves
                                            yield container, gov, shape, k, IT, iv, mapped, codec, resolve, override, 'two-open'


def check(idx, cfg, R):
    container, gov, shape, k, IT, iv, mapped, codec, resolve, override, fmode = cfg
    if container == 'set' and shape == 'any':
        # an untagged ANY member of a SET is only unambiguous when the inner value's tag differs
        # from the governor's tag
        ft = M.first_tags(IT)
        gtag = ('U', 2) if gov == 'int' else ('U', 6)
        if gtag in ft:
            return
    if fmode in ('default-id', 'absent-id') and shape == 'any':
        # an omitted DEFAULT governor followed by an untagged ANY is only unambiguous when the inner value's tag
        # differs from the governor's
        if (('U', 2) if gov == 'int' else ('U', 6)) in M.first_tags(IT):
            return
    R.evaluations += 1
    R.nontrivial(repr(cfg))
    feats = {'container:' + container, 'gov:' + gov, 'shape:' + shape, 'codec:' + codec,
             'resolve' if resolve else 'noresolve', 'mapped' if mapped else 'unmapped',
             {False: 'no_override', True: 'override', 'partial': 'partial_override', 'late': 'late_map'}[override],
             'fmode:' + fmode,
             'inner:' + ('constructed' if M.base_of(IT)[0] in ('SEQ', 'SET', 'SEQOF', 'SETOF') or IT[0] == 'TAG' else 'primitive')}
    if IT[0] == 'TAG' and IT[1] == 'E' and M.base_of(IT)[0] in ('INT', 'BOOL', 'NULL', 'OID', 'REAL', 'ENUM') and codec in ('ber-indef', 'cer'):
        feats.add('kf:K1')        # the inner value's own encoding carries the recorded stray end-of-octets
    if IT[0] == 'TAG' and (IT[2], IT[3]) == ('C', 3) and shape in ('any-implicit', 'any-explicit', 'setof-any-implicit', 'seqof-any-explicit', 'setof-anysub-implicit'):
        feats.add('inner_tag_equals_field_tag')
    if fmode == 'opt-blob' and codec in ('cer', 'der') and M.base_of(IT)[0] in ('SEQ', 'SET', 'SEQOF', 'SETOF') and not iv:
        feats.add('empty_value_in_optional_field')      # recorded finding K2 reaches the inner value through ifNotEmpty
    rec = {'cfg': [container, gov, shape, k, mapped, codec, resolve, override, fmode], 'inner_T': IT, 'inner_v': iv}
    keyfn = GOV[gov][1]
    true_map = {}
    for j, (T2, _) in enumerate(INNER):
        key = keyfn(j)
        true_map[univ.ObjectIdentifier(key) if gov == 'oid' else key] = B.to_spec(T2, cache=False)
    govval = keyfn(k) if mapped else UNMAPPED[gov]
    late = None
    if override == 'partial':
        # the caller's map knows other governing values only: the schema's own map still answers for this one
        other = [key for key in true_map if true_map[key] is not true_map.get(univ.ObjectIdentifier(govval) if gov == 'oid' else govval)]
        default_map, openTypes = true_map, {other[0]: univ.Null(), other[-1]: univ.Boolean()}
    elif override == 'late':
        # the map handed to OpenType() is filled in after the schema was built (stored by reference, documented)
        default_map, openTypes, late = {}, None, true_map
    elif override:
        # the default map disagrees: it maps every key to the *next* inner type; the override is right
        wrong = {}
        keys = list(true_map)
        for j, key in enumerate(keys):
            wrong[key] = B.to_spec(INNER[(j + 1) % len(INNER)][0], cache=False)
        default_map, openTypes = wrong, true_map
    else:
        default_map, openTypes = true_map, None
    try:
        schema = make_schema(container, gov, shape, default_map, fmode, govval)
        if late is not None:
            default_map.update(late)
        val = schema.clone()
        if fmode != 'absent-id':
            val['id'] = govval
        inner_obj = B.build(IT, iv, B.to_spec(IT, cache=False))
        if shape.startswith(('setof-any', 'seqof-any')):
            val['blob'].append(inner_obj)
        else:
            val['blob'] = inner_obj
        if fmode == 'two-open':
            val['id2'] = 9999
            val['blob2'] = univ.Integer(300)
    except Exception as e:
        R.violation('build.error', rec, exc_text(e), 'value with typed inner value can be built', pyasn1_site(e), feats, idx)
        return
    enc, dec, form = CODECS[codec]
    try:
        data = enc(val)
    except Exception as e:
        R.violation('encode.error', rec, exc_text(e), 'encodes', pyasn1_site(e), feats, idx)
        return
    kw = {}
    if resolve:
        kw['decodeOpenTypes'] = True
    if openTypes is not None and resolve:
        kw['openTypes'] = openTypes
    try:
        out, rest = dec(data, asn1Spec=schema, **kw)
    except Exception as e:
        R.violation('decode.error', rec, exc_text(e) + ' on ' + data[:48].hex(), 'decodes', pyasn1_site(e), feats, idx)
        return
    if rest != b'':
        R.violation('remainder', rec, rest.hex() + ' after ' + data[:48].hex(), 'empty', 'decoder', feats, idx)
        return
    try:
        if fmode == 'two-open':
            b2 = out.getComponentByName('blob2', default=None, instantiate=False)
            if not isinstance(b2, univ.Any) or bytes(b2) != bytes.fromhex('0202012c'):
                R.violation('second_field', rec, 'the field governed by an unmapped value came back as %s %r' % (
                    type(b2).__name__, b2), 'Any holding 02 02 01 2c', 'decoder', feats, idx)
                return
        blob = out.getComponentByName('blob', default=None, instantiate=False)
        if shape.startswith(('setof-any', 'seqof-any')):
            if blob is None or len(blob) != 1:
                R.violation('field.count', rec, 'blob=%r' % (blob,), 'one member', 'decoder', feats, idx)
                return
            blob = blob.getComponentByPosition(0, default=None, instantiate=False)
        if blob is None:
            R.violation('field.missing', rec, 'blob missing after decoding ' + data[:48].hex(), 'field present', 'decoder', feats, idx)
            return
        if resolve and mapped and fmode != 'absent-id':
            ispec = B.to_spec(IT, cache=False)
            try:
                got = B.abs_of(blob, IT, ispec)
            except B.NotAValue as e:
                R.violation('resolved.notvalue', rec, '%s (blob is %s) from %s' % (e, type(blob).__name__, data[:48].hex()),
                            repr(iv), 'decoder', feats, idx)
                return
            if not M.values_equal(IT, got, iv):
                R.violation('resolved.value', rec, '%r from %s' % (got, data[:48].hex()), repr(iv), 'decoder', feats, idx)
                return
        else:
            if not isinstance(blob, univ.Any):
                R.violation('raw.type', rec, 'field is %s: %r' % (type(blob).__name__, blob), 'Any holding the inner encoding',
                            'decoder', feats, idx)
                return
            got = blob.asOctets()
            # exactly the complete encoding of the inner value: one complete TLV, taken verbatim
            # from the outer encoding, that the independent reader maps to the inner value
            ok, why = CM.model_reads(IT, got, iv)
            if not ok:
                R.violation('raw.octets', rec, '%s from %s: %s' % (got.hex(), data[:48].hex(), why),
                            'complete encoding of %r' % (iv,), 'decoder', feats, idx)
                return
            if got not in data:
                R.violation('raw.not_verbatim', rec, '%s not in %s' % (got.hex(), data[:48].hex()),
                            'octets taken verbatim from the input', 'decoder', feats, idx)
                return
    except Exception as e:
        R.violation('read.error', rec, exc_text(e), 'readable result', pyasn1_site(e), feats, idx)
        return
    for f in feats:
        R.features[f] += 1
    if idx % 1499 == 0:
        R.sample({'config': list(map(str, cfg[:4])) + [mapped, codec, resolve, override], 'inner': M.show_type(IT),
                  'value': iv, 'encoding': data.hex()})


def shard(tier, i, n, seed):
    R = Result()
    idx = -1
    for cfg in configs():
        idx += 1
        if (idx + seed) % n != i:
            continue
        guarded(R, lambda: check(idx, cfg, R), {'cfg': [str(x) for x in cfg[:4]] + list(cfg[6:])}, {'codec:' + cfg[7]}, idx, cpu_limit=180)
    return R


def replay(case):
    R = Result()
    c = case['cfg']
    cfg = (c[0], c[1], c[2], c[3], case['inner_T'], case['inner_v'], c[4], c[5], c[6], c[7], c[8] if len(c) > 8 else 'req')
    check(1, cfg, R)
    return R.violations
