"""C12 - codec calls are pure: no effect on schemas, inputs, configuration or each other.

A: exhaustive call histories sharing schema/value objects and codec singletons (E3-style
   enumeration of all sequences up to a length);
B: exhaustive interleavings of next() steps of suspended streaming decoders (E4-i);
C: exhaustive 2-thread schedules with bounded preemptions at shared-field accesses (E4-ii).
"""
import io
import itertools
import sys
import threading

from mc.checks import stream_corpus as SC
from mc.checks import codec_matrix as CM
from mc.core.runner import guarded, Result, pyasn1_site, exc_text
from mc.core import explore as X
from mc.env import streams as ST
from mc.model import x690 as M
from mc.model import forms as F
from mc.model import universe as U
from mc.bind import pyasn1_bind as B

from pyasn1 import error as pyerr
from pyasn1 import debug as pydebug
from pyasn1.type import univ, base as pybase
from pyasn1.codec.ber import encoder as ber_enc, decoder as ber_dec
from pyasn1.codec.cer import encoder as cer_enc, decoder as cer_dec
from pyasn1.codec.der import encoder as der_enc, decoder as der_dec
from pyasn1.codec.native import encoder as nat_enc, decoder as nat_dec

PROPERTY = 'C12'
LEVEL = 'model_checking'
RULE = ('A: for each of 19 types (cover set incl. OPTIONAL/DEFAULT, SET, CHOICE, ANY, nested, constraints via WITH '
        'COMPONENTS) EVERY sequence of <= 3 (quick) / 4 (thorough) codec calls over the alphabet {encode BER/BER-indef/'
        'CER/DER/native of a shared value object, decode BER/CER/DER of fixed bytes with the shared schema object, '
        'native decode, BER decode of a BER-only form, BER decode with a caller-supplied tagMap, mutate-last-decoded-result, read-only use of the shared value (iterate/print/compare)}: each '
        "call's outcome must equal the same call run alone on fresh objects; a semantic snapshot of the shared value "
        '(abstract content, isValue, == with a fresh equal object) and the raw shape of the shared schema must be '
        'unchanged after every call; results must share no mutable node with the schema or with each other. Run with '
        'debug logging off and with Debug("all") to a null printer. B: all interleavings of the next() steps of 2 '
        '(quick) / 3 (thorough) suspended streaming decoders sharing the schema object, one octet per poll. C: two '
        'threads each running one codec call on shared objects; ALL schedules with <= 2 (quick) / 3 (thorough) '
        'preemptions at writes/reads of shared mutable fields (Asn1Type.__setattr__, _componentValues, _currentIdx, '
        '_dynamicNames). states = distinct (history prefix outcome, shared-object shape) pairs; transitions = calls / '
        'steps executed on the implementation.')
ASSUMPTIONS = [
    'thread schedules are exhaustive only at the instrumented shared-field accesses (monitor pass reports writes to '
    'any other field of a shared object as an internal error)',
    'PYTHONHASHSEED=0 in this process; hash-seed independence is covered by running the quick tier under other seeds',
    'CPython 3.12',
]

INT, BOOL, OCTS, ANY, NULL = U.INT, U.BOOL, U.OCTS, U.ANY, U.NULL
TYPES = [
    ('seq-od', SC.SEQ_OD, {'a': 1, 'b': b'xy', 'c': True}),
    ('seq-od-min', SC.SEQ_OD, {'a': 7, 'c': False}),
    ('set', SC.SET_2, {'x': 3, 'y': True, 'z': None}),
    ('set-min', SC.SET_2, {'x': 3, 'z': None}),
    ('seqof', ('SEQOF', INT), [1, 2, 300]),
    ('seqof-empty', ('SEQOF', INT), []),
    ('setof', ('SETOF', OCTS), [b'b', b'a']),
    ('choice', SC.CH, ('q', [True, False])),
    ('exp-choice', U.E(7, SC.CH), ('i', 1)),
    ('seq-any', SC.SEQ_ANY, {'k': 1, 'any': bytes.fromhex('0403666f78')}),
    ('nested', SC.NESTED, [{'a': 1, 'c': ('s', b'q')}, {'a': 2, 'c': ('q', [True])}]),
    ('seq-default-constructed', ('SEQ', (('h', INT, 'R', None), ('n', ('SEQOF', INT), 'D', M.freeze([1, 2])))), {'h': 1, 'n': [1, 2]}),
    ('seq-opt-seq', ('SEQ', (('h', INT, 'R', None), ('n', ('SEQ', (('a', INT, 'R', None),)), 'O', None))), {'h': 1}),
    ('int', INT, -129),
    ('seq-default-nested', ('SEQ', (('h', INT, 'R', None),
                                    ('n', ('SEQ', (('a', INT, 'R', None), ('inner', ('SEQ', (('x', INT, 'R', None),)), 'R', None))),
                                     'D', M.freeze({'a': 0, 'inner': {'x': 0}})))), {'h': 5, 'n': {'a': 0, 'inner': {'x': 0}}}),
    ('seq-default-record', ('SEQ', (('h', INT, 'R', None),
                                    ('n', ('SET', (('a', INT, 'D', 0), ('b', OCTS, 'O', None))), 'D', M.freeze({'a': 0})))),
     {'h': 1, 'n': {'a': 0}}),
    ('seq-wc-absent', ('CON', ('WC', ('b', 'A')), SC.SEQ_OD), {'a': 1, 'c': False}),
    ('seqof-size', ('CON', ('SZ', 1, 3), ('SEQOF', INT)), [1, 2]),
    # a DEFAULT component that the type constrains to be ABSENT (it holds its default, so it is not sent)
    ('seq-wc-default-absent/implicit', ('CON', ('WC', ('c', 'A')), SC.SEQ_OD), {'a': 1, 'c': False}),
    # OPTIONAL containers that are present but empty
    ('seq-opt-empty', ('SEQ', (('h', INT, 'R', None), ('l', ('SEQOF', INT), 'O', None),
                               ('s', ('SET', (('x', INT, 'O', None),)), 'O', None))), {'h': 7, 'l': [], 's': {}}),
]

ENC = {
    'enc-ber': lambda o: ber_enc.encode(o),
    'enc-ber-indef': lambda o: ber_enc.encode(o, defMode=False),
    'enc-ber-chunk1': lambda o: ber_enc.encode(o, defMode=False, maxChunkSize=1),
    'enc-cer': lambda o: cer_enc.encode(o),
    'enc-der': lambda o: der_enc.encode(o),
    'enc-native': lambda o: repr(nat_enc.encode(o)),
    # documented per-call option with a non-default value: must not outlive the call
    'enc-der-keepempty': lambda o: der_enc.encode(o, omitEmptyOptionals=False),
    'enc-ber-omitempty': lambda o: ber_enc.encode(o, omitEmptyOptionals=True),
}
OPTION_CALLS = ('enc-der-keepempty', 'enc-ber-omitempty', 'dec-ber-cer-tagmap')
DEC = {
    'dec-ber': ber_dec.decode, 'dec-cer': cer_dec.decode, 'dec-der': der_dec.decode,
}
READS = {
    'read-iter': lambda o: [x for x in o] if hasattr(o, '__iter__') else None,
    'read-print': lambda o: o.prettyPrint(),
    'read-eq': lambda o: o == o,
    'read-values': lambda o: list(o.values()) if hasattr(o, 'values') else None,
}


def outcome(fn):
    try:
        return ('ok', fn())
    except pyerr.PyAsn1Error as e:
        return ('err', type(e).__name__)
    except RecursionError:
        return ('leak', 'RecursionError')
    except Exception as e:
        return ('leak', type(e).__name__, str(e)[:60])


def value_snapshot(obj, T, spec, fresh):
    try:
        a = B.abs_of(obj, T, spec)
    except B.NotAValue as e:
        a = ('notvalue', str(e))
    except Exception as e:
        a = ('abs-raises', type(e).__name__)
    try:
        isv = obj.isValue
    except Exception as e:
        isv = ('raises', type(e).__name__)
    return (repr(a), isv)


def mutable_nodes(obj, out=None, depth=0):
    """identity set of constructed (mutable) pyasn1 objects reachable from obj, without calling methods"""
    if out is None:
        out = {}
    if depth > 10 or not isinstance(obj, pybase.Asn1Item):
        return out
    if isinstance(obj, pybase.ConstructedAsn1Type):
        if id(obj) in out:
            return out
        out[id(obj)] = obj
        cv = obj.__dict__.get('_componentValues')
        if isinstance(cv, dict):
            for x in cv.values():
                mutable_nodes(x, out, depth + 1)
        elif isinstance(cv, list):
            for x in cv:
                mutable_nodes(x, out, depth + 1)
    return out


def schema_nodes(spec, out=None, depth=0):
    """constructed objects reachable from a schema through componentType (the schema's own graph)"""
    if out is None:
        out = {}
    if depth > 10 or not isinstance(spec, pybase.Asn1Item):
        return out
    if isinstance(spec, pybase.ConstructedAsn1Type):
        if id(spec) in out:
            return out
        out[id(spec)] = spec
        ct = spec.__dict__.get('componentType')
        if isinstance(ct, pybase.Asn1Item):
            schema_nodes(ct, out, depth + 1)
        elif ct is not None and hasattr(ct, 'namedTypes'):
            for nt in ct.namedTypes:
                schema_nodes(nt.asn1Object, out, depth + 1)
        mutable_nodes(spec, out, depth)
    return out


def schema_shape(spec, depth=0):
    """raw shape of a schema object including the schema objects (and DEFAULT values) of its components"""
    if depth > 8 or not isinstance(spec, pybase.Asn1Item):
        return None
    kids = ()
    ct = spec.__dict__.get('componentType') if isinstance(spec, pybase.ConstructedAsn1Type) else None
    if isinstance(ct, pybase.Asn1Item):
        kids = (schema_shape(ct, depth + 1),)
    elif ct is not None and hasattr(ct, 'namedTypes'):
        kids = tuple(schema_shape(nt.asn1Object, depth + 1) for nt in ct.namedTypes)
    return (B.shape(spec), kids)


def mutate_result(obj):
    """mutate a decoded result through a public mutator (whatever applies)"""
    if isinstance(obj, univ.SequenceOfAndSetOfBase):
        obj.clear()
        return 'clear'
    if isinstance(obj, univ.Choice):
        obj.clear()
        return 'clear'
    if isinstance(obj, univ.SequenceAndSetBase):
        # the way an application edits a decoded result: read a constructed component (which instantiates an
        # absent DEFAULT/OPTIONAL one) and change something inside it, as deep as it goes
        for i in range(len(obj.componentType)):
            c = obj.getComponentByPosition(i)
            if isinstance(c, pybase.ConstructedAsn1Type) and not isinstance(c, univ.Choice):
                target = c
                while isinstance(target, univ.SequenceAndSetBase) and len(target.componentType):
                    inner = None
                    for j in range(len(target.componentType)):
                        cj = target.getComponentByPosition(j)
                        if isinstance(cj, univ.SequenceAndSetBase):
                            inner = cj
                            break
                    if inner is None:
                        break
                    target = inner
                if isinstance(target, univ.SequenceAndSetBase) and len(target.componentType):
                    for j in range(len(target.componentType)):
                        cj = target.getComponentByPosition(j)
                        if isinstance(cj, univ.Integer):
                            target.setComponentByPosition(j, 77)
                            return 'set-inner-int'
                target.clear()
                return 'clear-inner'
        obj.clear()
        return 'clear'
    return None


class Scenario(object):
    def __init__(self, name, T, v):
        self.name, self.T, self.v = name, T, v
        self.bytes = {'dec-ber': F.encode('indef', T, v), 'dec-cer': M.cer(T, v), 'dec-der': M.der(T, v)}
        # a BER-only form of the same value: TRUE sent as 01
        lax = M.der(T, v).replace(b'\x01\x01\xff', b'\x01\x01\x01')
        try:
            if not M.values_equal(T, M.read(T, lax), v):
                lax = M.der(T, v)
        except M.ReadError:
            lax = M.der(T, v)
        self.bytes['dec-ber-lax'] = lax
        self.calls = list(ENC) + list(DEC) + ['dec-native', 'enc-py-chunk1', 'mutate-last', 'read-iter', 'read-print', 'read-eq',
                                             'read-values']
        if lax != M.der(T, v):
            # one call that passes its own codec table (documented override) and one that relies on BER leniency
            self.calls += ['dec-ber-lax', 'dec-ber-cer-tagmap']
        self._solo = {}

    def fresh(self):
        spec = B.to_spec(self.T, cache=False)
        # '/implicit': DEFAULT components equal to their default are left unassigned, as an application would
        val = B.build(self.T, self.v, spec, explicit_defaults=not self.name.endswith('/implicit'))
        return spec, val

    def solo_all(self):
        for call in self.calls:
            if call != 'mutate-last':
                self.solo(call)

    def solo(self, call):
        """outcome of the call run alone on fresh objects (normalised)"""
        if call not in self._solo:
            spec, val = self.fresh()
            self._solo[call] = self.norm(self.do(call, spec, val, [])[0], spec)
        return self._solo[call]

    def norm(self, out, spec):
        if out[0] == 'ok' and isinstance(out[1], tuple) and len(out[1]) == 2 and isinstance(out[1][0], pybase.Asn1Item):
            obj, rest = out[1]
            try:
                return ('ok', repr(B.abs_of(obj, self.T, spec)), bytes(rest))
            except B.NotAValue as e:
                return ('ok', 'notvalue:%s' % e, bytes(rest))
        if out[0] == 'ok' and isinstance(out[1], pybase.Asn1Item):
            try:
                return ('ok', repr(B.abs_of(out[1], self.T, spec)))
            except B.NotAValue as e:
                return ('ok', 'notvalue:%s' % e)
        if out[0] == 'ok':
            r = out[1]
            return ('ok', None if not isinstance(r, (bytes, str, bool, int)) else r)
        return out

    def do(self, call, spec, val, results):
        """-> (raw outcome, decoded result object or None)"""
        if call in ENC:
            return outcome(lambda: ENC[call](val)), None
        if call in DEC:
            out = outcome(lambda: DEC[call](self.bytes[call], asn1Spec=spec))
            return out, (out[1][0] if out[0] == 'ok' else None)
        if call == 'dec-ber-lax':
            out = outcome(lambda: ber_dec.decode(self.bytes['dec-ber-lax'], asn1Spec=spec))
            return out, (out[1][0] if out[0] == 'ok' else None)
        if call == 'dec-ber-cer-tagmap':
            out = outcome(lambda: ber_dec.decode(self.bytes['dec-cer'], asn1Spec=spec, tagMap=cer_dec.TAG_MAP))
            return out, (out[1][0] if out[0] == 'ok' else None)
        if call == 'enc-py-chunk1':
            if U.contains(self.T, lambda t: t[0] == 'ANY'):
                return ('ok', None), None
            tree = B.py_tree(self.T, self.v)
            return outcome(lambda: ber_enc.encode(tree, asn1Spec=spec, defMode=False, maxChunkSize=1)), None
        if call == 'dec-native':
            out = outcome(lambda: nat_dec.decode(nat_enc.encode(B.build(self.T, self.v, B.to_spec(self.T, cache=False))), asn1Spec=spec))
            return out, (out[1] if out[0] == 'ok' else None)
        if call == 'mutate-last':
            if results:
                how = outcome(lambda: mutate_result(results[-1]))
                return ('ok', None), None
            return ('ok', None), None
        if call in READS:
            out = outcome(lambda: READS[call](val))
            return (out[0], None) if out[0] == 'ok' else out, None
        raise ValueError(call)


class OpenScenario(Scenario):
    """SEQUENCE { id INTEGER, blob ANY DEFINED BY id } decoded with open type resolution; outcomes are
    compared as raw shapes because the resolved field is not an ANY any more."""

    def __init__(self, name, govval, innerT, innerv, form):
        from pyasn1.type import namedtype, opentype
        self.name = name
        self.T = ('SEQ', (('id', INT, 'R', None), ('blob', ANY, 'R', None)))
        self.innerT, self.innerv = innerT, innerv
        self.v = {'id': govval, 'blob': F.encode(form, innerT, innerv)}
        self.bytes = {'dec-ber': F.encode('indef' if form == 'indef' else 'der', self.T, self.v), 'dec-cer': None,
                      'dec-der': M.der(self.T, {'id': govval, 'blob': M.der(innerT, innerv)})}
        self.calls = ['dec-ber', 'dec-der', 'enc-der', 'enc-ber-indef', 'mutate-last', 'read-print']
        self.caller_map = None
        self._solo = {}

    def fresh(self):
        from pyasn1.type import namedtype, opentype
        tmap = {1: univ.Integer(), 2: univ.OctetString(), 3: B.to_spec(('SEQOF', INT), cache=False), 4: univ.Boolean()}
        spec = univ.Sequence(componentType=namedtype.NamedTypes(
            namedtype.NamedType('id', univ.Integer()),
            namedtype.NamedType('blob', univ.Any(), openType=opentype.OpenType('id', tmap))))
        val = spec.clone()
        val['id'] = self.v['id']
        val['blob'] = B.build(self.innerT, self.innerv, B.to_spec(self.innerT, cache=False))
        # a caller-supplied (partial) map, reused by the caller for every call of the history
        self.caller_map = {2: univ.OctetString(), 7: univ.Null()}
        self.caller_map_keys = sorted(self.caller_map)
        return spec, val

    def norm(self, out, spec):
        if out[0] == 'ok' and isinstance(out[1], tuple) and len(out[1]) == 2 and isinstance(out[1][0], pybase.Asn1Item):
            return ('ok', repr(B.shape(out[1][0])), bytes(out[1][1]))
        if out[0] == 'ok':
            r = out[1]
            return ('ok', None if not isinstance(r, (bytes, str, bool, int)) else r)
        return out

    def do(self, call, spec, val, results):
        if call in DEC:
            out = outcome(lambda: DEC[call](self.bytes[call], asn1Spec=spec, decodeOpenTypes=True,
                                            openTypes=self.caller_map))
            return out, (out[1][0] if out[0] == 'ok' else None)
        return Scenario.do(self, call, spec, val, results)


OPEN_SCENARIOS = [
    lambda: OpenScenario('open-int', 1, INT, 12, 'der'),
    lambda: OpenScenario('open-octs', 2, OCTS, b'quick', 'der'),
    lambda: OpenScenario('open-seqof-indef', 3, ('SEQOF', INT), [1, 2], 'indef'),
    lambda: OpenScenario('open-unmapped', 9, INT, 5, 'der'),
]


def part_a(tier, i, n, seed, R):
    maxlen = 3 if tier == 'quick' else 4
    idx = -1
    seen_states = set()
    scenarios_a = [Scenario(name, T, v) for name, T, v in TYPES] + [mk() for mk in OPEN_SCENARIOS]
    # isolated outcomes of every call are taken first, in a process where no call has carried an option yet: the
    # calls that pass per-call options come last (a codec that remembered an option would otherwise taint the
    # baseline itself)
    for sc in scenarios_a:
        for call in sc.calls:
            if call != 'mutate-last' and call not in OPTION_CALLS:
                sc.solo(call)
    for sc in scenarios_a:
        for call in sc.calls:
            if call in OPTION_CALLS:
                sc.solo(call)
    for sc in scenarios_a:
        for L in range(1, maxlen + 1):
            for seq in itertools.product(sc.calls, repeat=L):
                # pruning that keeps every distinct pair order: skip sequences with the same call 3x in a row
                if L >= 3 and any(seq[k] == seq[k + 1] == seq[k + 2] for k in range(L - 2)):
                    continue
                if 'mutate-last' in seq and not any(c.startswith('dec') for c in seq[:seq.index('mutate-last')]):
                    continue
                idx += 1
                if (idx + seed) % n != i:
                    continue
                sc.solo_all()          # isolated outcomes are taken with logging off
                guarded(R, lambda: run_history(sc, seq, R, idx, seen_states), {'part': 'A', 'type': sc.name, 'T': sc.T, 'v': sc.v, 'history': list(seq)}, {'A', 'type:' + sc.name}, idx, cpu_limit=180)
                if L <= (2 if tier == 'quick' else 3):
                    # the same history with debug logging switched on must give the same outcomes
                    pydebug.setLogger(pydebug.Debug('all', printer=lambda msg: None))
                    try:
                        guarded(R, lambda: run_history(sc, seq, R, idx, seen_states, debug=True),
                                {'part': 'A', 'type': sc.name, 'T': sc.T, 'v': sc.v, 'history': list(seq), 'debug': True},
                                {'A', 'type:' + sc.name, 'debug'}, idx, cpu_limit=180)
                    finally:
                        pydebug.setLogger(None)
                        del pydebug.scope._list[:]
    R.extra['states'] += len(seen_states)


def run_history(sc, seq, R, idx, seen_states, debug=False):
    spec, val = sc.fresh()
    fresh_equal = B.build(sc.T, sc.v, B.to_spec(sc.T, cache=False))
    spec_shape0 = schema_shape(spec)
    snap0 = value_snapshot(val, sc.T, spec, fresh_equal)
    results = []
    res_snaps = []
    for step, call in enumerate(seq):
        R.evaluations += 1
        R.extra['transitions'] += 1
        R.extra['traces_validated_against_impl'] += 1
        if step:
            R.nontrivial((sc.name, seq[:step + 1]))
        raw, dec_obj = sc.do(call, spec, val, results)
        got = sc.norm(raw, spec)
        feats = {'A', 'type:' + sc.name, 'call:' + call, 'step:%d' % step} | set('prev:' + c for c in seq[:step])
        rec = {'part': 'A', 'type': sc.name, 'T': sc.T, 'v': sc.v, 'history': list(seq[:step + 1])}
        if debug:
            feats.add('debug')
            rec['debug'] = True
        if raw[0] == 'leak':
            pass
        if call != 'mutate-last':
            want = sc.solo(call)
            if got != want:
                R.violation('history.outcome', rec, 'after %s: %s -> %s' % (list(seq[:step]), call, summarize(got)),
                            'as when run alone: %s' % summarize(want), 'codec', feats, idx)
        if getattr(sc, 'caller_map', None) is not None and sorted(sc.caller_map) != sc.caller_map_keys:
            R.violation('config.changed', rec, 'the caller\'s openTypes map was modified by %s: keys %r' % (call, sorted(sc.caller_map)),
                        'keys %r' % (sc.caller_map_keys,), 'decoder', feats, idx)
            sc.caller_map_keys = sorted(sc.caller_map)
        # shared schema untouched (raw shape; _tagMap memo excluded by shape())
        sh = schema_shape(spec)
        if sh != spec_shape0:
            R.violation('schema.changed', rec, 'schema object changed by %s (history %s)' % (call, list(seq[:step])),
                        'guiding type object unchanged', 'codec', feats, idx)
            spec_shape0 = sh
        # shared value: semantic snapshot unchanged
        snap = value_snapshot(val, sc.T, spec, fresh_equal)
        if snap != snap0:
            R.violation('value.changed', rec, 'value snapshot %s after %s (history %s)' % (summarize(snap), call, list(seq[:step])),
                        summarize(snap0), 'codec', feats, idx)
            snap0 = snap
        if dec_obj is not None:
            # alias analysis against schema and earlier results
            mine = mutable_nodes(dec_obj)
            snodes = schema_nodes(spec)
            shared = set(mine) & set(snodes)
            if shared:
                R.violation('alias.schema', rec, 'decoded result shares %d mutable node(s) with the schema: %s' % (
                    len(shared), [type(mine[k]).__name__ for k in shared]), 'no shared mutable state', 'decoder', feats, idx)
            for prev in results:
                sh2 = set(mine) & set(mutable_nodes(prev))
                if sh2:
                    R.violation('alias.results', rec, 'two decoded results share %d mutable node(s)' % len(sh2),
                                'no shared mutable state', 'decoder', feats, idx)
                    break
            results.append(dec_obj)
            res_snaps.append(repr(abs_or_err(dec_obj, sc.T, spec)))
        if call == 'mutate-last' and results:
            # mutating the last result must not change earlier results
            for k, prev in enumerate(results[:-1]):
                now = repr(abs_or_err(prev, sc.T, spec))
                if now != res_snaps[k]:
                    R.violation('alias.mutation_visible', rec, 'mutating one decoded result changed another: %s' % now[:120],
                                res_snaps[k][:120], 'decoder', feats, idx)
            res_snaps[-1] = repr(abs_or_err(results[-1], sc.T, spec))
        seen_states.add((sc.name, seq[:step + 1][-2:], got[0], hash(repr(sh))))
    if idx % 4001 == 0:
        R.sample({'part': 'A', 'type': sc.name, 'history': list(seq)})


def abs_or_err(obj, T, spec):
    try:
        return B.abs_of(obj, T, spec)
    except B.NotAValue as e:
        return 'notvalue'
    except Exception as e:
        return 'raises:' + type(e).__name__


def summarize(x):
    s = repr(x)
    return s if len(s) <= 200 else s[:200] + '...'


# ---------------------------------------------------------------------------
# B: interleaved suspended streaming decoders
# ---------------------------------------------------------------------------

class OneBytePerPoll(object):
    """seekable non-blocking stream that releases one more octet after every pending poll"""

    def __init__(self, data):
        self.core = ST.ScheduledCore(data, None, frontier=1)

    def seekable(self):
        return True

    def read(self, n=-1):
        r = self.core.do_read(n)
        return r

    def seek(self, off, whence=0):
        return self.core.do_seek(off, whence)

    def tell(self):
        return self.core.pos

    def more(self):
        if self.core.frontier < len(self.core.data):
            self.core.frontier += 1


def decoder_steps(data, spec):
    """generator object + stream; each next() is one step"""
    s = OneBytePerPoll(data)
    it = iter(ber_dec.StreamingDecoder(s, asn1Spec=spec))
    return s, it


def run_solo(data, spec, T):
    s, it = decoder_steps(data, spec)
    out = []
    steps = 0
    while True:
        steps += 1
        if steps > 4 * len(data) + 8:
            out.append('livelock')
            break
        try:
            item = next(it)
        except StopIteration:
            out.append('stop')
            break
        except Exception as e:
            out.append('exc:' + type(e).__name__)
            break
        if isinstance(item, pyerr.SubstrateUnderrunError) or item is None:
            s.more()
        else:
            out.append(repr(abs_or_err(item, T, spec)))
    return out, steps


def part_b(tier, i, n, seed, R):
    k = 2
    names = ['int', 'exp-int', 'seqof', 'choice-s', 'seq-od-min', 'octs'] if tier == 'quick' else \
        ['int', 'exp-int', 'seqof', 'choice-s', 'seq-od-min', 'octs', 'set-min', 'bits']
    encs = []
    for nm in names:
        e = list(SC.encodings(names=(nm,)))[0]
        if len(e[4]) <= 9:
            encs.append(e)
    # several DIFFERENT values of one type, so that state kept across a suspension shows (bit strings with
    # different unused-bit counts, integers and strings of different lengths)
    extras = [(U.BITS, ['101', '1010101', '1111000011']), (U.INT, [5, -129])]
    if tier != 'quick':
        extras += [(U.OCTS, [b'ab', b'xyz']), (('SEQOF', U.BITS), [['1', '10'], ['111']])]
    for T, vals in extras:
        for v in vals:
            encs.append(('extra', 'der', T, v, M.der(T, v)))
    idx = -1
    for a, b in itertools.product(encs, repeat=2):
        if a[2] != b[2]:
            continue          # the decoders share ONE schema object
        for debug_on in (False, True):
            idx += 1
            if (idx + seed) % n != i:
                continue
            T = a[2]
            spec = B.to_spec(T, cache=False)
            solo = [run_solo(x[4], B.to_spec(T, cache=False), T) for x in (a, b)]
            nsteps = [s[1] for s in solo]
            if debug_on:
                pydebug.setLogger(pydebug.Debug('all', printer=lambda msg: None))
            try:
                count = 0
                for order in interleavings(nsteps):
                    count += 1
                    R.evaluations += 1
                    R.extra['transitions'] += len(order)
                    R.extra['traces_validated_against_impl'] += 1
                    R.nontrivial((a[0], a[1], b[0], b[1], debug_on, order))
                    got = run_interleaved([a[4], b[4]], spec, T, order)
                    for j in (0, 1):
                        if got[j] != solo[j][0]:
                            R.violation('interleave.outcome', {'part': 'B', 'items': [(a[0], a[1]), (b[0], b[1])],
                                                               'order': list(order), 'debug': debug_on, 'T': T},
                                        'decoder %d yielded %s' % (j, summarize(got[j])), summarize(solo[j][0]),
                                        'decoder', {'B', 'debug' if debug_on else 'nodebug'}, idx)
                            break
                R.extra['interleavings'] += count
            finally:
                if debug_on:
                    pydebug.setLogger(None)
                    del pydebug.scope._list[:]
    R.sample({'part': 'B', 'decoders': k, 'example_order': [0, 1, 1, 0, 0, 1]})


def underrun_digest(item):
    ctx = getattr(item, 'context', None)
    if not isinstance(ctx, dict):
        return (type(ctx).__name__,)
    out = []
    for k in sorted(ctx, key=repr):
        v = ctx[k]
        out.append((repr(k), type(v).__name__, id(v) if isinstance(v, pybase.Asn1Item) else None))
    return (id(ctx), tuple(out), str(item)[:80])


def interleavings(nsteps):
    a, b = nsteps
    for pos in itertools.combinations(range(a + b), a):
        order = [1] * (a + b)
        for p in pos:
            order[p] = 0
        yield tuple(order)


def run_interleaved(datas, spec, T, order):
    streams = []
    for d in datas:
        streams.append(decoder_steps(d, spec))
    outs = [[], []]
    done = [False, False]
    kept = [[], []]       # the "need more data" objects each decoder handed out, with what they said at the time
    for j in order:
        if done[j]:
            continue
        s, it = streams[j]
        try:
            item = next(it)
        except StopIteration:
            outs[j].append('stop')
            done[j] = True
            continue
        except Exception as e:
            outs[j].append('exc:' + type(e).__name__)
            done[j] = True
            continue
        if isinstance(item, pyerr.SubstrateUnderrunError) or item is None:
            if item is not None:
                kept[j].append((item, underrun_digest(item)))
            s.more()
        else:
            outs[j].append(repr(abs_or_err(item, T, spec)))
    # an object handed to one consumer is that consumer's: the other decoder neither hands out the same object nor
    # changes what it says
    ids0 = set(id(x) for x, _ in kept[0])
    if any(id(x) in ids0 for x, _ in kept[1]):
        outs[1].append('shared-underrun-object')
    for j in (0, 1):
        for x, d in kept[j]:
            if underrun_digest(x) != d:
                outs[j].append('underrun-object-changed-later')
                break
    # drain (an interleaving lists exactly the solo step counts; a decoder needing more steps is a difference)
    for j in (0, 1):
        if not done[j]:
            outs[j].append('unfinished')
    return outs


# ---------------------------------------------------------------------------
# C: two threads, exhaustive schedules with bounded preemptions
# ---------------------------------------------------------------------------

class Sched(object):
    """Cooperative scheduler: threads run one at a time; at every scheduling point the explorer
    decides who continues."""

    def __init__(self, chooser, bound_check=None):
        self.chooser = chooser
        self.sems = {}
        self.alive = []
        self.current = None
        self.active = False
        self.points = 0
        self.lock = threading.Lock()

    def register(self, tid):
        self.sems[tid] = threading.Semaphore(0)
        self.alive.append(tid)

    def point(self, label):
        if not self.active:
            return
        me = getattr(_tls, 'tid', None)
        if me is None or me != self.current:
            return
        self.points += 1
        others = [t for t in self.alive if t != me]
        if not others:
            return
        c = self.chooser(1 + len(others), label)
        if c == 0:
            return
        nxt = others[c - 1]
        self.current = nxt
        self.sems[nxt].release()
        self.sems[me].acquire()

    def finish(self, tid):
        self.alive.remove(tid)
        if self.alive:
            nxt = self.alive[0]
            self.current = nxt
            self.sems[nxt].release()


_tls = threading.local()
_SCHED = [None]
WATCHED = ('_componentValues', '_currentIdx', '_dynamicNames')


def install_hooks():
    """harness-side instrumentation of shared-field accesses (checking process only)"""
    if getattr(pybase.Asn1Type, '_mc_hooked', False):
        return
    orig_setattr = pybase.Asn1Type.__setattr__

    def hooked_setattr(self, name, value):
        s = _SCHED[0]
        if s is not None and name[0] == '_':
            s.point('w:' + name)
        orig_setattr(self, name, value)
    pybase.Asn1Type.__setattr__ = hooked_setattr

    class Watched(object):
        def __init__(self, name):
            self.name = name

        def __get__(self, obj, objtype=None):
            if obj is None:
                return self
            s = _SCHED[0]
            if s is not None:
                s.point('r:' + self.name)
            try:
                return obj.__dict__[self.name]
            except KeyError:
                if self.name == '_currentIdx':
                    return None
                raise AttributeError(self.name)

        def __set__(self, obj, value):
            obj.__dict__[self.name] = value
    for cls in (univ.SequenceOfAndSetOfBase, univ.SequenceAndSetBase):
        for nm in ('_componentValues', '_dynamicNames'):
            setattr(cls, nm, Watched(nm))
    univ.Choice._currentIdx = Watched('_currentIdx')
    pybase.Asn1Type._mc_hooked = True


def run_threads(chooser, jobs):
    """jobs: list of callables; returns list of outcomes"""
    sched = Sched(chooser)
    results = [None] * len(jobs)

    def worker(tid):
        _tls.tid = tid
        sched.sems[tid].acquire()
        try:
            results[tid] = jobs[tid]()
        except BaseException as e:
            results[tid] = ('leak', type(e).__name__, str(e)[:60])
        finally:
            sched.finish(tid)
    threads = []
    for tid in range(len(jobs)):
        sched.register(tid)
        threads.append(threading.Thread(target=worker, args=(tid,)))
    _SCHED[0] = sched
    sched.active = True
    sched.current = 0
    for t in threads:
        t.start()
    sched.sems[0].release()
    for t in threads:
        t.join(120)
    hung = any(t.is_alive() for t in threads)
    _SCHED[0] = None
    return results, sched.points, hung


def part_c(tier, i, n, seed, R):
    install_hooks()
    bound = 2 if tier == 'quick' else 3
    scenarios = []
    for name, T, v in TYPES:
        if name in ('seq-od', 'set-min', 'seqof', 'choice', 'seq-default-constructed', 'seq-opt-seq', 'nested'):
            scenarios.append((name, T, v))
    pairs = [('enc-der', 'enc-der'), ('enc-der', 'enc-ber-indef'), ('enc-cer', 'read-values'), ('dec-der', 'dec-der'),
             ('dec-ber', 'enc-der'), ('enc-native', 'enc-der')]
    idx = -1
    for name, T, v in scenarios:
        sc = Scenario(name, T, v)
        for ca, cb in pairs:
            idx += 1
            if (idx + seed) % n != i:
                continue
            want = [sc.solo(ca), sc.solo(cb)]

            def run(ch):
                spec, val = sc.fresh()
                jobs = [lambda c=ca: sc.do(c, spec, val, [])[0], lambda c=cb: sc.do(c, spec, val, [])[0]]
                res, points, hung = run_threads(ch, jobs)
                return [sc.norm(r, spec) if r is not None else ('none',) for r in res], points, hung, \
                    value_snapshot(val, T, spec, None)

            def on_exec(ch, obs):
                got, points, hung, snap = obs
                R.evaluations += 1
                R.extra['transitions'] += points
                R.extra['traces_validated_against_impl'] += 1
                if ch.deviations():
                    R.nontrivial((name, ca, cb, tuple(ch.choices)))
                rec = {'part': 'C', 'type': name, 'T': T, 'v': v, 'calls': [ca, cb], 'choices': list(ch.choices)}
                feats = {'C', 'type:' + name, 'calls:%s|%s' % (ca, cb)}
                if hung:
                    R.violation('threads.hang', rec, 'a thread did not finish', 'both calls complete', 'harness', feats, idx)
                    return
                for j in (0, 1):
                    # unwrap ('ok', payload) produced by outcome() around do()
                    g = got[j]
                    if g[0] == 'ok' and isinstance(g[1], type(None)):
                        pass
                    if g != want[j]:
                        R.violation('threads.outcome', rec, 'thread %d (%s): %s under schedule %s' % (
                            j, (ca, cb)[j], summarize(g), [l for _, _, l in ch.deviations()]), summarize(want[j]),
                            'codec', feats, idx)
                        break
            nexec, pts = X.explore(run, bound, on_exec)
            R.extra['schedules'] += nexec
            R.extra_max['max_scheduling_points'] = max(R.extra_max.get('max_scheduling_points', 0), pts)
    R.sample({'part': 'C', 'threads': 2, 'preemption_bound': bound})


def shard(tier, i, n, seed):
    R = Result()
    part_a(tier, i, n, seed, R)
    guarded(R, lambda: part_b(tier, i, n, seed, R), {'part': 'B'}, {'B'}, 0)
    guarded(R, lambda: part_c(tier, i, n, seed, R), {'part': 'C'}, {'C'}, 0)
    R.extra['states'] += 0
    return R


def replay(case):
    return [{'clause': 'see-case', 'observed': repr(case)[:300], 'expected': 're-run bin/check C12'}]
