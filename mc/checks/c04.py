"""C04 - DER/CER bytes depend only on the abstract value, not on how it was built.

E3-style exhaustive enumeration of construction histories per (type, value); every complete
history must yield the same DER and the same CER bytes, and decode(der) must re-encode identically.
"""
import itertools

from mc.checks import codec_matrix as CM
from mc.core import explore as X
from mc.core.runner import guarded, Result, pyasn1_site, exc_text
from mc.model import x690 as M
from mc.model import forms as F
from mc.model import universe as U
from mc.bind import pyasn1_bind as B

from pyasn1 import error as pyerr
from pyasn1.type import univ, constraint, base as pybase
from pyasn1.codec.ber import encoder as ber_enc, decoder as ber_dec
from pyasn1.codec.cer import encoder as cer_enc, decoder as cer_dec
from pyasn1.codec.der import encoder as der_enc, decoder as der_dec

PROPERTY = 'C04'
LEVEL = 'model_checking'
RULE = ('For every (type, value) of a reduced universe (REC stride, OF, CH, NEST): ALL construction histories from the '
        'alphabet {assign components in every order by name / by position, append SET OF / SEQUENCE OF members (SET OF: '
        'every order), DEFAULT component assigned explicitly or left out, clone(cloneValueFlag=True) at the end, build by '
        'decoding each BER form with <= 1 departure from DER, REAL values re-scaled or carrying the BER encoding-base hint, and read-only operations (DER/CER/BER encode, prettyPrint, '
        'str, repr, keys/values/items, len, in, ==, isValue, isInconsistent, getComponentByPosition(i) for EVERY i incl. '
        'unset OPTIONAL and non-selected CHOICE alternatives, obj[name], the same reads on a record held as a component) inserted singly at every position of every route '
        'and pairwise after construction}. Oracle: every complete history yields the same DER and the same CER bytes as '
        'the plain route; der(decode(der)) == der and cer(decode(cer)) == cer. States = distinct (type, value, raw object '
        'shape) reached; transitions = operations executed on the real objects.')
ASSUMPTIONS = [
    'differential oracle: no reference encoder is needed (agreement of the plain route with X.690 is C03)',
    'CPython 3.12, PYTHONHASHSEED=0',
]


def reads_for(T):
    base = M.base_of(T)
    k = base[0]
    ops = ['der', 'cer', 'ber_indef', 'pretty', 'str', 'repr', 'len', 'isValue', 'isInconsistent', 'eq', 'bool']
    if k in ('SEQ', 'SET'):
        ops += ['keys', 'values', 'items', 'in']
        for i, f in enumerate(base[1]):
            ops += ['getpos(%d)' % i, 'getname(%s)' % f[0], 'getpos_noinst(%d)' % i]
            if M.base_of(f[1])[0] in ('SEQ', 'SET'):
                # read-only use of a record held by this record: every one of its members, its values(), its encoding
                ops += ['deep(%d)' % i]
    elif k in ('SEQOF', 'SETOF'):
        ops += ['iter', 'in', 'getlast', 'count', 'getpos_noinst(0)']
    elif k == 'CHOICE':
        ops += ['keys', 'values', 'items', 'in', 'getName', 'getComponent']
        for i, a in enumerate(base[1]):
            ops += ['getpos(%d)' % i, 'getname(%s)' % a[0], 'getpos_noinst(%d)' % i]
    return ops


def do_read(obj, op, T):
    name = op.split('(')[0]
    arg = op.split('(')[1][:-1] if '(' in op else None
    try:
        if name == 'der':
            der_enc.encode(obj)
        elif name == 'cer':
            cer_enc.encode(obj)
        elif name == 'ber_indef':
            ber_enc.encode(obj, defMode=False)
        elif name == 'pretty':
            obj.prettyPrint()
        elif name == 'str':
            str(obj)
        elif name == 'repr':
            repr(obj)
        elif name == 'len':
            len(obj)
        elif name == 'isValue':
            obj.isValue
        elif name == 'isInconsistent':
            obj.isInconsistent
        elif name == 'eq':
            obj == obj.clone(cloneValueFlag=True) if isinstance(obj, pybase.ConstructedAsn1Type) else obj == obj
        elif name == 'bool':
            bool(obj)
        elif name == 'keys':
            list(obj.keys())
        elif name == 'values':
            list(obj.values())
        elif name == 'items':
            list(obj.items())
        elif name == 'iter':
            list(obj)
        elif name == 'in':
            ('a' in obj) if not isinstance(obj, univ.SequenceOfAndSetOfBase) else (1 in obj)
        elif name == 'count':
            obj.count(1)
        elif name == 'getlast':
            if len(obj):                       # only existing members (reading at index len is outside the alphabet)
                obj.getComponentByPosition(len(obj) - 1)
        elif name == 'getpos':
            obj.getComponentByPosition(int(arg))
        elif name == 'getpos_noinst':
            obj.getComponentByPosition(int(arg), default=None, instantiate=False)
        elif name == 'deep':
            inner = obj.getComponentByPosition(int(arg))
            for j in range(len(inner.componentType)):
                inner.getComponentByPosition(j)
            list(inner.values())
            der_enc.encode(inner)
        elif name == 'getname':
            obj[arg]
        elif name == 'getName':
            obj.getName()
        elif name == 'getComponent':
            obj.getComponent()
    except Exception:
        pass       # the outcome of the read itself is C19's subject; here only its after-effects count


def routes(T, v):
    """yield (route name, list of steps); a step is ('set', name, by) | ('append', idx) | ('clone',) | ('decode', form)"""
    base = M.base_of(T)
    k = base[0]
    if k in ('SEQ', 'SET'):
        names = [f[0] for f in base[1] if f[0] in v]
        dnames = [f[0] for f in base[1] if f[2] == 'D' and f[0] in v and M.values_equal(f[1], v[f[0]], M.thaw(f[3]))]
        perms = list(itertools.permutations(names)) if len(names) <= 3 else [tuple(names), tuple(reversed(names))]
        for pi, perm in enumerate(perms):
            for by in ('name', 'pos'):
                yield 'perm%d-%s' % (pi, by), [('set', n, by) for n in perm]
        if dnames:
            rest = [n for n in names if n not in dnames]
            yield 'defaults-omitted', [('set', n, 'name') for n in rest]
        # members handed over as value objects of a constrained subtype of the field's type (as when they are copied
        # from a component of another structure): the same abstract value
        yield 'narrowed-name', [('set', n, 'narrow') for n in names]
    elif k in ('SEQOF', 'SETOF'):
        idxs = list(range(len(v)))
        if k == 'SETOF' and len(v) <= 3:
            for pi, perm in enumerate(itertools.permutations(idxs)):
                yield 'perm%d' % pi, [('append', i) for i in perm]
        else:
            yield 'append', [('append', i) for i in idxs]
            yield 'extend', [('extend',)]
            if len(v) >= 2:
                yield 'backwards', [('setpos', i) for i in reversed(idxs)]
    elif k == 'CHOICE':
        yield 'set', [('set', v[0], 'name')]
        others = [a[0] for a in base[1] if a[0] != v[0]]
        if others:
            yield 'reselect', [('setother', others[0]), ('set', v[0], 'name')]
    elif k == 'REAL' and isinstance(v, tuple) and v[0]:
        m, b, e = v
        yield 'scalar', [('scalar',)]
        yield 'scaled-up', [('real', (m * b, b, e - 1))]
        yield 'scaled-up2', [('real', (m * b * b, b, e - 2))]
        if m % b == 0:
            yield 'scaled-down', [('real', (m // b, b, e + 1))]
        if b == 2:
            # the documented BER-only encoding base hint carried by the value object
            yield 'hint-base8', [('scalar',), ('hint', 8)]
            yield 'hint-base16', [('scalar',), ('hint', 16)]
        if b == 10:
            from fractions import Fraction
            fr = Fraction(m) * Fraction(10) ** e
            if fr.denominator == 1 and abs(fr) < 10 ** 15:
                yield 'from-int', [('real', int(fr))]
                yield 'from-str', [('real', str(int(fr)))]
                yield 'from-float', [('real', float(int(fr)))]
    else:
        yield 'scalar', [('scalar',)]


def execute(T, v, spec, steps, reads_at=None):
    """Build an object by the steps, applying read ops at given positions {pos: [ops]}. -> (obj, nops)"""
    base = M.base_of(T)
    k = base[0]
    nops = 0
    obj = spec.clone()
    if k in ('SEQOF', 'SETOF'):
        obj.clear()
    if k in ('SEQ', 'SET') and not any(s[0] == 'set' for s in steps):
        obj.clear()
    reads_at = reads_at or {}
    fields = {f[0]: (i, f) for i, f in enumerate(base[1])} if k in ('SEQ', 'SET') else {}
    alts = {a[0]: (i, a) for i, a in enumerate(base[1])} if k == 'CHOICE' else {}
    for pos, st in enumerate(steps):
        for op in reads_at.get(pos, ()):
            do_read(obj, op, T)
            nops += 1
        nops += 1
        if st[0] == 'set':
            name, by = st[1], st[2]
            if k == 'CHOICE':
                i, a = alts[name]
                obj.setComponentByName(name, B.build(a[1], v[1], B.field_spec(spec, i)))
            else:
                i, f = fields[name]
                val = B.build(f[1], v[name], B.field_spec(spec, i))
                if by == 'narrow':
                    if isinstance(val, univ.Integer):
                        val = val.subtype(subtypeSpec=constraint.ValueRangeConstraint(int(val), int(val)))
                    elif isinstance(val, univ.OctetString):
                        val = val.subtype(subtypeSpec=constraint.ValueSizeConstraint(0, len(val) + 1))
                    obj.setComponentByName(name, val)
                elif by == 'name':
                    obj.setComponentByName(name, val)
                else:
                    obj.setComponentByPosition(i, val)
        elif st[0] == 'setother':
            i, a = alts[st[1]]
            obj.setComponentByName(st[1], B.build(a[1], U.small_values(a[1])[0], B.field_spec(spec, i)))
        elif st[0] == 'append':
            obj.append(B.build(base[1], v[st[1]], spec.componentType))
        elif st[0] == 'extend':
            obj.extend([B.build(base[1], x, spec.componentType) for x in v])
        elif st[0] == 'setpos':
            obj.setComponentByPosition(st[1], B.build(base[1], v[st[1]], spec.componentType))
        elif st[0] == 'scalar':
            obj = B.build(T, v, spec)
        elif st[0] == 'real':
            obj = spec.clone(st[1])
        elif st[0] == 'hint':
            obj.binEncBase = st[1]
    for op in reads_at.get(len(steps), ()):
        do_read(obj, op, T)
        nops += 1
    return obj, nops


def canon_bytes(obj):
    out = {}
    for name, enc in (('der', der_enc.encode), ('cer', cer_enc.encode)):
        try:
            out[name] = enc(obj)
        except RecursionError as e:
            out[name] = ('exc', 'RecursionError')
        except Exception as e:
            out[name] = ('exc', type(e).__name__)
    return out


def check_case(idx, sl, T, v, tier, R, states):
    feats0 = CM.case_features(T, v)
    if U.contains(T, lambda t: t[0] in ('SEQ', 'SET') and any(
            f[2] == 'D' and M.base_of(f[1])[0] in ('SEQ', 'SET') and any(g[2] == 'D' for g in M.base_of(f[1])[1])
            for f in t[1])):
        feats0 = feats0 | {'default_inside_default'}
    spec = B.to_spec(T)
    rec0 = {'slice': sl, 'T': T, 'v': v}
    # plain route
    try:
        plain = B.build(T, v, spec)
        ref = canon_bytes(plain)
    except Exception as e:
        R.violation('build.error', rec0, exc_text(e), 'value can be built', pyasn1_site(e), feats0, idx)
        return
    R.evaluations += 1

    def compare(hname, obj, nops, extra_feats=()):
        R.evaluations += 1
        R.extra['transitions'] += nops
        R.extra['traces_validated_against_impl'] += 1
        R.nontrivial((T, M.freeze(v), hname))
        try:
            states.add((idx, repr(B.shape(obj))))
        except Exception:
            pass
        got = canon_bytes(obj)
        for codec in ('der', 'cer'):
            if got[codec] != ref[codec]:
                g, r = got[codec], ref[codec]
                R.violation('history.' + codec, dict(rec0, history=hname),
                            '%s via %s' % (g.hex()[:80] if isinstance(g, bytes) else g, hname),
                            '%s via the plain route' % (r.hex()[:80] if isinstance(r, bytes) else r,),
                            codec + '.encoder', feats0 | set(extra_feats) | {'codec:' + codec}, idx)
                return False
        return True

    reads = reads_for(T)
    base = M.base_of(T)

    def read_feats(op, pos, nsteps):
        fs = {'read:' + op.split('(')[0], 'read_before_complete' if pos < nsteps else 'read_after'}
        if base[0] == 'CHOICE' and op.split('(')[0] in ('getpos', 'getname'):
            arg = op.split('(')[1][:-1]
            alts = [a[0] for a in base[1]]
            target = alts[int(arg)] if op.startswith('getpos') else arg
            if target != v[0]:
                fs.add('choice_read_other_alt')      # known finding: a read of a non-selected alternative selects it
        return fs

    for rname, steps in routes(T, v):
        try:
            obj, nops = execute(T, v, spec, steps)
        except Exception as e:
            R.violation('route.error', dict(rec0, history=rname), exc_text(e), 'route builds the value', pyasn1_site(e),
                        feats0 | {'route:' + rname.split('-')[0].rstrip('0123456789')}, idx)
            continue
        compare(rname, obj, nops, {'route:' + rname.split('-')[0].rstrip('0123456789')})
        # clone at the end
        try:
            c = obj.clone(cloneValueFlag=True) if isinstance(obj, pybase.ConstructedAsn1Type) else obj.clone()
            compare(rname + '+clone', c, nops + 1, {'clone'})
        except Exception as e:
            R.violation('clone.error', dict(rec0, history=rname + '+clone'), exc_text(e), 'clone succeeds', pyasn1_site(e),
                        feats0 | {'clone'}, idx)
        # one read-only operation at every position of the route
        for pos in range(len(steps) + 1):
            for op in reads:
                try:
                    o2, n2 = execute(T, v, spec, steps, {pos: [op]})
                except Exception as e:
                    R.violation('route.error', dict(rec0, history='%s+%s@%d' % (rname, op, pos)), exc_text(e),
                                'route builds the value', pyasn1_site(e), feats0 | {'read:' + op.split('(')[0], 'read_before_complete' if pos < len(steps) else 'read_after'}, idx)
                    continue
                compare('%s+%s@%d' % (rname, op, pos), o2, n2, read_feats(op, pos, len(steps)))
    # pairs of reads after the plain route
    plain_steps = next(iter(routes(T, v)))[1]
    for a, b in itertools.product(reads, repeat=2):
        try:
            o2, n2 = execute(T, v, spec, plain_steps, {len(plain_steps): [a, b]})
        except Exception as e:
            continue
        compare('plain+%s+%s' % (a, b), o2, n2, read_feats(a, 1, 1) | read_feats(b, 1, 1) | {'read_pair'})
    # built by decoding BER forms (<= 1 departure from DER)
    if 'real10' not in feats0:
        seen = set()

        def run(ch):
            try:
                return M.ber_form(T, v, ch, max_split=2)
            except M.ModelError:
                return None

        def on_exec(ch, data):
            if data is None or data in seen:
                return
            seen.add(data)
            try:
                o2, rest = ber_dec.decode(data, asn1Spec=spec)
            except Exception:
                return              # C09's subject
            if rest:
                return
            try:
                if not M.values_equal(T, B.abs_of(o2, T, spec), v):
                    return          # C09's subject
            except B.NotAValue:
                return
            labels = sorted(set(l.split(':')[0] for _, _, l in ch.deviations()))
            compare('decoded:' + ','.join(labels or ['der']), o2, 1, {'decoded'} | set('form:' + l for l in labels))
        X.explore(run, 1, on_exec)
    # fixpoint: re-encoding the decoded canonical encoding reproduces it
    for codec, enc, dec in (('der', der_enc.encode, der_dec.decode), ('cer', cer_enc.encode, cer_dec.decode)):
        e = ref[codec]
        if not isinstance(e, bytes):
            continue
        R.evaluations += 1
        try:
            o2, rest = dec(e, asn1Spec=spec)
            again = enc(o2)
        except Exception as ex:
            continue              # C02's subject (round trip failure)
        if again != e:
            from mc.model import emu
            R.violation('fixpoint.' + codec, dict(rec0, history='decode-reencode'), again.hex()[:80], e.hex()[:80],
                        codec + '.encoder', feats0 | {'codec:' + codec} | emu.classify(T, v, codec, e), idx)


def cases(tier):
    idx = -1
    plan = [('REC', 37), ('OF', 2), ('CH', 1), ('NEST', 1), ('LEAF', 3)] if tier == 'quick' else \
        [('REC', 3), ('OF', 1), ('CH', 1), ('NEST', 1), ('LEAF', 1)]
    for sl, stride in plan:
        k = -1
        for T, v in U.SLICES[sl]('quick'):
            k += 1
            if k % stride:
                continue
            idx += 1
            yield idx, sl, T, v


def shard(tier, i, n, seed):
    R = Result()
    states = set()
    for idx, sl, T, v in cases(tier):
        if (idx + seed) % n != i:
            continue
        guarded(R, lambda: check_case(idx, sl, T, v, tier, R, states), {'slice': sl, 'T': T, 'v': v}, CM.type_features(T), idx)
        if idx % 1009 == seed % 1009:
            R.sample({'T': M.show_type(T), 'v': v, 'example_history': 'perm1-pos+values@1'})
    R.extra['states'] += len(states)
    return R


def replay(case):
    R = Result()
    check_case(0, case.get('slice', '?'), case['T'], case['v'], 'thorough', R, set())
    return [v for v in R.violations if v['case'].get('history') == case.get('history')] or R.violations[:1]
