"""C10 - whatever a decoder accepts is a well-formed, re-encodable value of the type.

Fault enumeration: valid encodings, encodings of neighbouring types / constraint-violating values, and
the complete single-mutation neighbourhood of both, decoded under constrained guiding types.
"""
from mc.checks import codec_matrix as CM
from mc.checks.c08 import mutations, SIGMA
from mc.core.runner import guarded, Result, pyasn1_site, exc_text
from mc.model import x690 as M
from mc.model import forms as F
from mc.model import universe as U
from mc.bind import pyasn1_bind as B

from pyasn1 import error as pyerr
from pyasn1.codec.ber import encoder as ber_enc, decoder as ber_dec
from pyasn1.codec.der import decoder as der_dec, encoder as der_enc
from pyasn1.codec.cer import decoder as cer_dec, encoder as cer_enc

PROPERTY = 'C10'
LEVEL = 'fault_enumeration'
RULE = ('19 guiding types carrying value-range / single-value / size / permitted-alphabet / WITH COMPONENTS constraints and their intersection, union and (1- and 2-operand) exclusion, two of them records with an open-type field '
        '(scalars, strings, SEQUENCE OF/SET OF with size bounds, SEQUENCE/SET with OPTIONAL/DEFAULT, CHOICE, nested). Inputs: '
        '(1) reference encodings (DER + indefinite form) of every value of the UNCONSTRAINED type over small domains - i.e. valid values and every '
        'constraint-violating neighbour (out-of-range scalar, members beyond the size bound, forbidden component present); '
        '(2) encodings of neighbouring types (one component more / less, one tag changed, duplicated SET member, wrong '
        'inner type); (3) the complete single-mutation neighbourhood of (1)+(2) for encodings <= 20 (quick) / 32 '
        '(thorough) octets; x decoders BER/CER/DER. Oracle (only when decode returns): the abstract value read with non-mutating '
        'accessors is complete and satisfies every constraint per the independent evaluator; the BER encoder accepts it; '
        'decoding that re-encoding yields the same abstract value. Rejection is always acceptable. Non-trivial = input is '
        'not a valid encoding of a value of the constrained type; distinct = digest of (type, bytes, decoder).')
ASSUMPTIONS = [
    'independent evaluators mc/model/x690.py welltyped() and mc/model/constraints.py',
    'CPython 3.12, PYTHONHASHSEED=0',
]
DECS = {'ber': ber_dec.decode, 'cer': cer_dec.decode, 'der': der_dec.decode}
REENCODERS = (('ber', ber_enc.encode, 'ber'),
              ('ber-indef-chunk1', lambda o: ber_enc.encode(o, defMode=False, maxChunkSize=1), 'ber'),
              ('cer', cer_enc.encode, 'cer'), ('der', der_enc.encode, 'der'))

INT, BOOL, OCTS, UTF8, BITS = U.INT, U.BOOL, U.OCTS, U.UTF8, U.BITS


def CON(cd, T):
    return ('CON', cd, T)


def strip(T):
    """T without any constraint"""
    k = T[0]
    if k == 'CON':
        return strip(T[2])
    if k == 'TAG':
        return ('TAG', T[1], T[2], T[3], strip(T[4]))
    if k in ('SEQ', 'SET'):
        return (k, tuple((n, strip(ft), o, d) for n, ft, o, d in T[1]))
    if k in ('SEQOF', 'SETOF'):
        return (k, strip(T[1]))
    if k == 'CHOICE':
        return (k, tuple((n, strip(t)) for n, t in T[1]))
    return T


T_INT = CON(('VR', -1, 1), INT)
T_SV = CON(('SV', 1, 3), INT)
T_OCTS = CON(('SZ', 1, 2), OCTS)
T_UTF8 = CON(('AND', ('SZ', 0, 2), ('PA', 'a', 'b')), UTF8)
T_SEQOF = CON(('SZ', 1, 2), ('SEQOF', INT))
T_SETOF = CON(('SZ', 0, 2), ('SETOF', OCTS))
T_SEQ = ('SEQ', (('a', T_INT, 'R', None), ('b', T_OCTS, 'O', None), ('c', BOOL, 'D', False)))
T_SET = ('SET', (('x', INT, 'R', None), ('y', U.E(1, BOOL), 'O', None), ('z', T_UTF8, 'O', None)))
T_SET2 = ('SET', (('id', T_INT, 'R', None), ('name', T_OCTS, 'R', None), ('note', U.I(5, BOOL), 'O', None)))
T_WC = CON(('WC', ('b', 'A')), ('SEQ', (('a', INT, 'R', None), ('b', OCTS, 'O', None))))
T_WCP = CON(('WC', ('b', 'P')), ('SEQ', (('a', INT, 'R', None), ('b', OCTS, 'O', None))))
T_CH = ('CHOICE', (('i', T_SV), ('s', U.I(3, T_OCTS))))
T_NEST = ('SEQ', (('k', INT, 'R', None), ('inner', CON(('SZ', 2, 2), ('SEQOF', ('SEQ', (('a', T_INT, 'R', None),)))), 'R', None)))
T_EXC2 = CON(('AND', ('VR', -2, 4), ('NOT', ('SV', 2), ('VR', -1, 0))), INT)
T_OR3 = CON(('OR', ('SV', -2), ('VR', 1, 2), ('SV', 11)), INT)
T_NOT = CON(('NOT', ('VR', 0, 3)), INT)
T_SEQ_EXC = ('SEQ', (('n', T_EXC2, 'R', None), ('m', T_OR3, 'O', None), ('l', CON(('SZ', 0, 2), ('SEQOF', T_NOT)), 'O', None)))
# records with an open type field (decoded here without resolving it, so the field stays ANY) under a presence rule
_OPEN_FIELDS = (('id', INT, 'R', None), ('blob', U.ANY, 'R', None), ('note', OCTS, 'O', None))
T_OPEN_WCA = CON(('WC', ('note', 'A')), ('SEQ', _OPEN_FIELDS))
T_OPEN_WCP = CON(('WC', ('note', 'P')), ('SEQ', _OPEN_FIELDS))


def _open_spec(T):
    from pyasn1.type import univ, namedtype, opentype
    from mc.model import constraints as C
    ot = opentype.OpenType('id', {1: univ.Integer(), 2: univ.OctetString()})
    cls = univ.Sequence if T[2][0] == 'SEQ' else univ.Set
    return cls(componentType=namedtype.NamedTypes(
        namedtype.NamedType('id', univ.Integer()),
        namedtype.NamedType('blob', univ.Any(), openType=ot),
        namedtype.OptionalNamedType('note', univ.OctetString()))).subtype(subtypeSpec=C.to_pyasn1(T[1]))


B._spec_cache[T_OPEN_WCA] = _open_spec(T_OPEN_WCA)
B._spec_cache[T_OPEN_WCP] = _open_spec(T_OPEN_WCP)
# SIZE given the legacy way (pyasn1-modules idiom): the sizeSpec keyword of subtype() / clone() / the constructor
T_SEQOF_LEG = CON(('AND', ('SZ', 1, 2)), ('SEQOF', INT))
T_SETOF_LEG = CON(('AND', ('SZ', 0, 2), ('SZ', 0, 3)), ('SETOF', OCTS))
T_SEQOF_LEG2 = CON(('AND', ('SZ', 2, 3), ('SZ', 0, 9)), ('SEQOF', BOOL))


def _legacy_specs():
    from pyasn1.type import univ, constraint
    B._spec_cache[T_SEQOF_LEG] = univ.SequenceOf(componentType=univ.Integer()).subtype(
        sizeSpec=constraint.ValueSizeConstraint(1, 2))
    B._spec_cache[T_SETOF_LEG] = univ.SetOf(componentType=univ.OctetString()).clone(
        sizeSpec=constraint.ValueSizeConstraint(0, 2))
    B._spec_cache[T_SEQOF_LEG2] = univ.SequenceOf(componentType=univ.Boolean(), sizeSpec=constraint.ValueSizeConstraint(2, 3))


_legacy_specs()
T_SEQ_LEG = ('SEQ', (('k', INT, 'R', None), ('l', U.I(2, T_SEQOF_LEG), 'O', None), ('m', T_SEQOF_LEG2, 'O', None)))
# untagged CHOICE components that the decoder finds through a tag map (SET member; behind an OPTIONAL; nested)
_CH2 = ('CHOICE', (('i', T_SV), ('s', U.I(3, T_OCTS))))
T_SET_CH = ('SET', (('c', _CH2, 'R', None), ('b', BOOL, 'R', None)))
T_SEQ_OPT_CH = ('SEQ', (('o', U.I(7, INT), 'O', None), ('c', _CH2, 'R', None)))
T_CH_CH = ('CHOICE', (('n', _CH2), ('z', U.I(9, BOOL))))
# WITH COMPONENTS {..., b (1..10) PRESENT}: presence combined with a value constraint on the component
T_WCV = CON(('WC', ('b', 'P', ('VR', 1, 10))), ('SEQ', (('a', INT, 'R', None), ('b', U.I(1, INT), 'O', None))))
T_WCV2 = CON(('WC', ('x', 'P', ('SV', 1, 3)), ('y', 'A')), ('SET', (('x', INT, 'O', None), ('y', U.I(1, BOOL), 'O', None), ('z', U.I(2, OCTS), 'O', None))))
T_BITS5 = CON(('SZ', 1, 5), BITS)
T_SEQ_BITS = ('SEQ', (('f', CON(('SZ', 9, 12), U.I(4, BITS)), 'R', None), ('g', T_BITS5, 'O', None)))
TYPES = [('set-choice', T_SET_CH), ('seq-opt-choice', T_SEQ_OPT_CH), ('choice-choice', T_CH_CH), ('wc-value-present', T_WCV),
         ('wc-value-present-set', T_WCV2), ('seqof-legacy-size', T_SEQOF_LEG), ('setof-legacy-size', T_SETOF_LEG), ('seqof-legacy-ctor', T_SEQOF_LEG2),
         ('seq-legacy', T_SEQ_LEG), ('bits-size', T_BITS5), ('seq-bits-size', T_SEQ_BITS), ('int-except2', T_EXC2), ('int-union3', T_OR3), ('int-not', T_NOT), ('seq-except', T_SEQ_EXC),
         ('open-wc-absent', T_OPEN_WCA), ('open-wc-present', T_OPEN_WCP), ('int-range', T_INT), ('int-sv', T_SV), ('octs-size', T_OCTS), ('utf8-size-alpha', T_UTF8),
         ('seqof-size', T_SEQOF), ('setof-size', T_SETOF), ('seq', T_SEQ), ('set', T_SET), ('set2', T_SET2), ('wc-absent', T_WC),
         ('wc-present', T_WCP), ('choice', T_CH), ('nested', T_NEST)]


def domain(T):
    """values of the UNCONSTRAINED type over small domains (valid ones and violating neighbours)"""
    T = M.strip_con(T)
    k = T[0]
    if k == 'TAG':
        return domain(T[4])
    if k == 'INT':
        return [-2, -1, 0, 1, 2, 3, 4, 11]
    if k == 'BOOL':
        return [False, True]
    if k == 'OCTS':
        return [b'', b'a', b'ab', b'abc']
    if k == 'BITS':
        return ['', '1', '10101', '0' * 9, '101010101010', '1' * 13]
    if k == 'STR':
        return ['', 'a', 'ab', 'abc', 'c', 'ac']
    if k in ('SEQOF', 'SETOF'):
        inner = domain(T[1])[:3]
        out = [[]]
        for n in (1, 2, 3):
            out.append([inner[i % len(inner)] for i in range(n)])
        return out
    if k in ('SEQ', 'SET'):
        import itertools
        choices = []
        for name, ft, opt, dflt in T[1]:
            vals = domain(ft)
            vals = vals[:4] if len(T[1]) > 1 else vals
            if opt == 'R':
                choices.append([(name, x) for x in vals])
            elif opt == 'O':
                choices.append([None] + [(name, x) for x in vals[:3]])
            else:
                choices.append([(name, M.thaw(dflt))] + [(name, x) for x in vals if not M.values_equal(ft, x, M.thaw(dflt))][:1])
        out = []
        for combo in itertools.product(*choices):
            out.append(dict(c for c in combo if c is not None))
        return out[:60]
    if k == 'CHOICE':
        out = []
        for n, alt in T[1]:
            for x in domain(alt)[:5]:
                out.append((n, x))
        return out
    return U.small_values(T)


def neighbours(name, T):
    """hand-built encodings of neighbouring types"""
    UT = strip(T)
    out = []
    base = M.base_of(UT)
    if base[0] == 'SEQ':
        fields = base[1]
        vals = domain(UT)
        v = max(vals, key=len)
        # one component more
        T2 = ('SEQ', fields + (('extra', U.I(9, INT), 'R', None),))
        out.append(('extra-component', M.der(T2, dict(v, extra=5))))
        # one required component less
        req = [f for f in fields if f[2] == 'R']
        if req:
            T3 = ('SEQ', tuple(f for f in fields if f[0] != req[0][0]))
            v3 = {k_: x for k_, x in v.items() if k_ != req[0][0]}
            out.append(('missing-required', M.der(T3, v3)))
        # one tag changed
        f0 = fields[0]
        T4 = ('SEQ', ((f0[0], U.I(12, M.strip_con(f0[1])), f0[2], f0[3]),) + fields[1:])
        try:
            out.append(('tag-changed', M.der(T4, v)))
        except M.ModelError:
            pass
        # wrong inner type
        T5 = ('SEQ', ((f0[0], OCTS, 'R', None),) + fields[1:])
        out.append(('wrong-type', M.der(T5, dict(v, **{f0[0]: b'zz'}))))
    if base[0] == 'SET':
        v = max(domain(UT), key=len)
        e = M.der(UT, v)
        node = M.tlv_tree(e)
        kid = node.children[0]
        dup = e[kid.start:kid.end]
        content = e[node.hdr_end:node.end] + dup
        out.append(('duplicated-member', e[:1] + M.length_octets(len(content)) + content))
        content2 = dup + dup
        out.append(('only-duplicates', e[:1] + M.length_octets(len(content2)) + content2))
        for j, kj in enumerate(node.children):
            # member j duplicated in place of member j+1 (a mandatory member masked by a duplicate)
            if j + 1 < len(node.children):
                dj = e[kj.start:kj.end]
                rest = b''.join(e[c.start:c.end] for t, c in enumerate(node.children) if t not in (j, j + 1))
                content3 = dj + dj + rest
                out.append(('duplicate-replaces-%d' % (j + 1), e[:1] + M.length_octets(len(content3)) + content3))
    if base[0] in ('SEQOF', 'SETOF'):
        wrong = (base[0], BOOL) if M.base_of(base[1])[0] != 'BOOL' else (base[0], INT)
        out.append(('wrong-member-type', M.der(wrong, [True, False])))
        mixed = M.der(UT, domain(UT)[1]) if domain(UT)[1] else b''
        if mixed:
            node = M.tlv_tree(mixed)
            content = mixed[node.hdr_end:node.end] + b'\x01\x01\xff'
            out.append(('mixed-members', mixed[:1] + M.length_octets(len(content)) + content))
    if base[0] == 'CHOICE':
        out.append(('unknown-alternative', M.der(U.I(30, INT), 1)))
    return out


def inputs(tier):
    maxlen = 20 if tier == 'quick' else 32
    idx = -1
    for name, T in TYPES:
        UT = strip(T)
        seeds = []
        for v in domain(UT):
            valid = M.welltyped(T, v)
            for form in ('der', 'indef'):
                try:
                    e = F.encode(form, UT, v)
                except M.ModelError:
                    continue
                if form == 'indef' and e == F.encode('der', UT, v):
                    continue
                seeds.append(('valid' if valid else 'violating', form, e))
        for kind, e in neighbours(name, T):
            seeds.append(('neighbour:' + kind, 'der', e))
        seen = set()
        for origin, form, e in seeds:
            if e in seen:
                continue
            seen.add(e)
            idx += 1
            yield idx, name, T, origin, form, e
        for origin, form, e in seeds:
            if len(e) > maxlen:
                continue
            for mkind, m in mutations(e):
                if m in seen:
                    continue
                seen.add(m)
                idx += 1
                yield idx, name, T, 'mut:' + mkind + ':' + origin.split(':')[0], form, m


def check_input(idx, name, T, origin, form, data, R):
    spec = B.to_spec(T)
    for decname in ('ber', 'cer', 'der'):
        R.evaluations += 1
        if origin != 'valid':
            R.nontrivial((name, data, decname))
        feats = {'type:' + name, 'dec:' + decname, 'origin:' + origin.split(':')[0],
                 'origin2:' + ':'.join(origin.split(':')[:2])}
        rec = {'type': name, 'T': T, 'data': data, 'dec': decname, 'origin': origin}
        try:
            r = DECS[decname](data, asn1Spec=spec)
        except pyerr.PyAsn1Error:
            R.features['rejected'] += 1
            continue
        except Exception:
            R.features['leak_is_C08'] += 1      # non-library exceptions are C08's subject
            continue
        try:
            obj, rest = r
        except Exception:
            continue
        try:
            a = B.abs_of(obj, T, spec)
        except B.NotAValue as e:
            R.violation('incomplete', rec, 'decode(%s) returned an incomplete/ill-typed value: %s' % (data.hex()[:60], e),
                        'a complete value of the type, or rejection', decname + '.decoder', feats, idx)
            continue
        except Exception as e:
            R.violation('unreadable', rec, exc_text(e), 'a readable value', pyasn1_site(e), feats, idx)
            continue
        if not M.welltyped(T, a):
            why = explain(T, a)
            R.violation('constraint', rec, 'decode(%s) returned %r which violates the type: %s' % (data.hex()[:60], a, why),
                        'a value satisfying all constraints, or rejection', decname + '.decoder',
                        feats | {'viol:' + why.split(' ')[0]}, idx)
            continue
        bad = False
        for ename, enc, dname in REENCODERS:
            try:
                again = enc(obj)
            except Exception as e:
                R.violation('reencode.error', dict(rec, enc=ename), '%s re-encoding (%s) result of decode(%s) = %r' % (
                    exc_text(e), ename, data.hex()[:60], a), 'encoder accepts the value', pyasn1_site(e), feats | {'enc:' + ename}, idx)
                bad = True
                continue
            d = CM.decode_to_abs(dname, again, T, spec)
            if d[0] != 'ok' or d[2] != b'' or not M.values_equal(T, d[1], a):
                if ename != 'ber' and CM.model_reads(T, again, a)[0] is False:
                    # the recorded encoder defects (K1 stray end-of-octets, K2 omitted empty OPTIONAL) are C01-C03's subject
                    R.features['reencode.encoder_output_wrong_is_C03'] += 1
                    continue
                R.violation('fixpoint', dict(rec, enc=ename), 'decode(encode(x)) [%s] = %s for x = %r' % (
                    ename, (exc_text(d[1]) if d[0] == 'exc' else repr(d[1:])), a), repr(a), ename, feats | {'enc:' + ename}, idx)
                bad = True
        if bad:
            continue
        R.features['accepted_ok'] += 1
        R.features['accepted:' + origin.split(':')[0]] += 1


def explain(T, a):
    """first violated constraint (for triage)"""
    k = T[0]
    if k == 'CON':
        from mc.model import constraints as C
        if not M.welltyped(T[2], a):
            return explain(T[2], a)
        if not C.admits(T[1], T[2], a):
            return '%s violated by %r' % (T[1][0], a)
        return 'ok'
    if k == 'TAG':
        return explain(T[4], a)
    if k in ('SEQ', 'SET') and isinstance(a, dict):
        for n, ft, o, d in T[1]:
            if n in a and not M.welltyped(ft, a[n]):
                return explain(ft, a[n])
            if n not in a and o == 'R':
                return 'missing %s' % n
        return 'unknown-component'
    if k in ('SEQOF', 'SETOF') and isinstance(a, list):
        for x in a:
            if not M.welltyped(T[1], x):
                return explain(T[1], x)
    if k == 'CHOICE' and isinstance(a, tuple):
        alt = dict(T[1]).get(a[0])
        if alt:
            return explain(alt, a[1])
    return 'ill-typed'


def shard(tier, i, n, seed):
    R = Result()
    for idx, name, T, origin, form, data in inputs(tier):
        if (idx + seed) % n != i:
            continue
        guarded(R, lambda: check_input(idx, name, T, origin, form, data, R), {'type': name, 'T': T, 'data': data, 'origin': origin}, {'type:' + name}, idx, cpu_limit=180)
        if idx % 3001 == seed % 3001:
            R.sample({'type': name, 'origin': origin, 'input': data.hex()})
    return R


def replay(case):
    R = Result()
    check_input(0, case['type'], case['T'], case['origin'], 'der', case['data'], R)
    return [v for v in R.violations if v['case']['dec'] == case['dec']]
