"""C15 - DER/CER decoders enforce the canonical restrictions they implement, everywhere.

E2 with exactly one deviation: every single non-canonical rewrite of every DER encoding.
"""
from mc.checks import codec_matrix as CM
from mc.checks import stream_corpus as SC
from mc.core import explore as X
from mc.core.runner import guarded, InternalError, Result, pyasn1_site, exc_text
from mc.model import x690 as M
from mc.model import universe as U
from mc.bind import pyasn1_bind as B

from pyasn1 import error as pyerr

PROPERTY = 'C15'
LEVEL = 'fault_enumeration'
RULE = ('For every (type, value) of universe slices LEAF, OF, CH, NEST and a stride of REC and TAGS: the DER '
        'encoding and EVERY encoding obtained by exactly one non-canonical rewrite of one element: definite -> '
        'indefinite at each constructed/explicit node, primitive -> constructed (1 segment, every 2-way split '
        'up to 3, nested) at each string node of each string type, BOOLEAN FF -> {01,7F,80,FE}. Each rewrite is '
        'confirmed to denote the same value by the reference reader, then given to the DER decoder (all rewrites) '
        'and the CER decoder (BOOLEAN rewrites) with the guiding type and - where the type is self-describing - '
        'without it; the decoder must raise PyAsn1Error. The same rewrites of LEAF/OF/NEST cases are also placed inside an open type field (ANY, [3] EXPLICIT ANY, SET OF ANY, SEQUENCE OF ANY, governed by an INTEGER) that the DER/CER decoder resolves (decodeOpenTypes). Non-trivial = a rewritten encoding; distinct = digest of '
        '(bytes, decoder, spec).')
ASSUMPTIONS = [
    'rewrites come from the reference encoder with exactly one non-default choice; the 0-deviation (DER) encoding '
    'must be accepted by the same decoder (non-vacuity), otherwise the case is skipped and counted',
    'CPython 3.12, PYTHONHASHSEED=0',
]
TRUE_OCTETS = (0xFF, 0x01, 0x7F, 0x80, 0xFE)


def plan(tier):
    if tier == 'quick':
        return [('LEAF', 1), ('OF', 1), ('CH', 1), ('NEST', 1), ('REC', 7), ('TAGS', 3)]
    return [('LEAF', 1), ('OF', 1), ('CH', 1), ('NEST', 1), ('REC', 1), ('TAGS', 1)]


def cases(tier):
    idx = -1
    for sl, stride in plan(tier):
        k = -1
        for T, v in U.SLICES[sl]('quick'):
            k += 1
            if k % stride:
                continue
            idx += 1
            yield idx, sl, T, v


def check_case(idx, sl, T, v, R):
    feats0 = CM.case_features(T, v)
    if 'real10' in feats0 or 'any' in feats0:
        return
    spec = B.to_spec(T)
    schemaless = SC.schemaless_ok(T)
    big = 'bigstr' in feats0

    def run(ch):
        pol = M.ChoicePolicy(ch, max_split=2 if not big else 0, nested=not big, long_len=False, perms=False,
                             defaults=False, true_octets=TRUE_OCTETS)
        try:
            return M.Encoder(pol).enc(T, v)
        except M.ModelError:
            return None

    der = M.der(T, v)
    # non-vacuity: decoders accept the canonical encoding
    accept = {}
    for decname in ('der', 'cer'):
        for use_spec in (True, False):
            if not use_spec and not schemaless:
                continue
            d = CM.decode_to_abs(decname, der, T, spec) if use_spec else raw_decode(decname, der)
            accept[(decname, use_spec)] = d[0] == 'ok'
            if d[0] != 'ok':
                R.extra['canonical_rejected_skipped'] += 1

    def on_exec(ch, data):
        if data is None:
            return
        devs = ch.deviations()
        if not devs:
            return
        (pos, choice, label), = devs
        kind = label.split(':')[0]
        try:
            back = M.read(T, data)
        except M.ReadError as e:
            raise InternalError('reference reader rejects reference form %s: %s' % (data.hex(), e))
        if not M.values_equal(T, back, v):
            raise InternalError('reference forms disagree on %s' % data.hex())
        decs = ('der', 'cer') if kind == 'true' else ('der',)
        for decname in decs:
            for use_spec in (True, False):
                if not accept.get((decname, use_spec)):
                    continue
                R.evaluations += 1
                R.nontrivial((data, decname, use_spec))
                R.features['rewrite:' + label] += 1
                d = CM.decode_to_abs(decname, data, T, spec) if use_spec else raw_decode(decname, data)
                if d[0] == 'exc' and isinstance(d[1], pyerr.PyAsn1Error):
                    continue
                feats = feats0 | {'rewrite:' + kind, 'dec:' + decname, 'spec' if use_spec else 'nospec',
                                  'label:' + label}
                rec = {'slice': sl, 'T': T, 'v': v, 'bytes': data, 'dec': decname, 'spec': use_spec,
                       'rewrite': label}
                if d[0] == 'exc':
                    R.violation('leak:' + type(d[1]).__name__, rec, CM.exc_text(d[1]) + ' on ' + data[:48].hex(),
                                'PyAsn1Error', pyasn1_site(d[1]), feats, idx)
                else:
                    R.violation('accepted', rec, 'non-canonical %s accepted: %s' % (label, data[:48].hex()),
                                'PyAsn1Error', decname + '.decoder', feats, idx)

    n, pts = X.explore(run, 1, on_exec)
    R.extra['executions'] += n


OPEN_SHAPES = ('any', 'any-explicit', 'setof-any', 'seqof-any')


def open_schema(shape, inner_spec):
    from pyasn1.type import univ, namedtype, opentype, tag
    if shape == 'any':
        f = univ.Any()
    elif shape == 'any-explicit':
        f = univ.Any().subtype(explicitTag=tag.Tag(tag.tagClassContext, tag.tagFormatSimple, 3))
    elif shape == 'setof-any':
        f = univ.SetOf(componentType=univ.Any())
    else:
        f = univ.SequenceOf(componentType=univ.Any())
    return univ.Sequence(componentType=namedtype.NamedTypes(
        namedtype.NamedType('id', univ.Integer()),
        namedtype.NamedType('blob', f, openType=opentype.OpenType('id', {1: inner_spec}))))


def open_wrap(shape, inner):
    """DER encoding of SEQUENCE {id INTEGER (1), blob <shape>} around the given inner encoding (taken as is)"""
    if shape == 'any-explicit':
        inner = b'\xa3' + M.length_octets(len(inner)) + inner
    elif shape == 'setof-any':
        inner = b'\x31' + M.length_octets(len(inner)) + inner
    elif shape == 'seqof-any':
        inner = b'\x30' + M.length_octets(len(inner)) + inner
    body = b'\x02\x01\x01' + inner
    return b'\x30' + M.length_octets(len(body)) + body


def check_open(idx, sl, T, v, R):
    """the same single rewrites, with the element sitting in an open type field that the decoder resolves"""
    feats0 = CM.case_features(T, v)
    if 'real10' in feats0 or 'any' in feats0 or 'bigstr' in feats0:
        return
    if M.strip_con(T)[0] == 'CHOICE':
        return          # an untagged CHOICE has no single tag to be mapped by
    ispec = B.to_spec(T)
    schemas = {shape: open_schema(shape, ispec) for shape in OPEN_SHAPES}

    def dec(decname, shape, data):
        try:
            r = CM.DECODERS[decname](data, asn1Spec=schemas[shape], decodeOpenTypes=True)
        except Exception as e:
            return ('exc', e)
        return ('ok', r)

    def run(ch):
        pol = M.ChoicePolicy(ch, max_split=2, nested=True, long_len=False, perms=False, defaults=False,
                             true_octets=TRUE_OCTETS)
        try:
            return M.Encoder(pol).enc(T, v)
        except M.ModelError:
            return None

    der = M.der(T, v)
    accept = {}
    for decname in ('der', 'cer'):
        for shape in OPEN_SHAPES:
            d = dec(decname, shape, open_wrap(shape, der))
            ok = d[0] == 'ok' and d[1][1] == b''
            if ok:
                # non-vacuity: the field really was resolved to the inner type
                blob = d[1][0].getComponentByName('blob', default=None, instantiate=False)
                if shape in ('setof-any', 'seqof-any') and blob is not None and len(blob) == 1:
                    blob = blob.getComponentByPosition(0, default=None, instantiate=False)
                try:
                    ok = M.values_equal(T, B.abs_of(blob, T, ispec), v)
                except Exception:
                    ok = False
            accept[(decname, shape)] = ok
            if not ok:
                R.extra['open.canonical_not_resolved_skipped'] += 1

    def on_exec(ch, data):
        if data is None:
            return
        devs = ch.deviations()
        if not devs:
            return
        (pos, choice, label), = devs
        kind = label.split(':')[0]
        decs = ('der', 'cer') if kind == 'true' else ('der',)
        for decname in decs:
            for shape in OPEN_SHAPES:
                if not accept.get((decname, shape)):
                    continue
                outer = open_wrap(shape, data)
                R.evaluations += 1
                R.nontrivial((outer, decname, 'open', shape))
                R.features['open.rewrite:' + kind] += 1
                d = dec(decname, shape, outer)
                if d[0] == 'exc' and isinstance(d[1], pyerr.PyAsn1Error):
                    continue
                feats = feats0 | {'rewrite:' + kind, 'dec:' + decname, 'open', 'open:' + shape, 'label:' + label}
                rec = {'slice': sl, 'T': T, 'v': v, 'bytes': outer, 'dec': decname, 'open': shape, 'rewrite': label}
                if d[0] == 'exc':
                    R.violation('open.leak:' + type(d[1]).__name__, rec, CM.exc_text(d[1]) + ' on ' + outer[:48].hex(),
                                'PyAsn1Error', pyasn1_site(d[1]), feats, idx)
                else:
                    R.violation('open.accepted', rec, 'non-canonical %s accepted inside a resolved open type field (%s): %s'
                                % (label, shape, outer[:48].hex()), 'PyAsn1Error', decname + '.decoder', feats, idx)

    n, pts = X.explore(run, 1, on_exec)
    R.extra['open.executions'] += n


def raw_decode(decname, data):
    try:
        r = CM.DECODERS[decname](data)
    except Exception as e:
        return ('exc', e)
    if r[0] is None:
        return ('notvalue', 'None', r[1])
    return ('ok', r[0], r[1])


def shard(tier, i, n, seed):
    R = Result()
    for idx, sl, T, v in cases(tier):
        if (idx + seed) % n != i:
            continue
        guarded(R, lambda: check_case(idx, sl, T, v, R), {'slice': sl, 'T': T, 'v': v}, CM.type_features(T), idx, cpu_limit=180)
        if sl in ('LEAF', 'OF', 'NEST') and (sl == 'LEAF' or idx % 3 == 0 or tier != 'quick'):
            guarded(R, lambda: check_open(idx, sl, T, v, R), {'slice': sl, 'T': T, 'v': v, 'open': True}, CM.type_features(T) | {'open'}, idx, cpu_limit=180)
        R.features['slice:' + sl] += 1
        if idx % 499 == seed % 499:
            R.sample({'T': M.show_type(T), 'v': v})
    return R


def replay(case):
    T = case['T']
    if case.get('open'):
        try:
            CM.DECODERS[case['dec']](case['bytes'], asn1Spec=open_schema(case['open'], B.to_spec(T)), decodeOpenTypes=True)
        except pyerr.PyAsn1Error:
            return []
        except Exception as e:
            return [{'clause': 'open.leak', 'observed': repr(e)[:200], 'expected': 'PyAsn1Error'}]
        return [{'clause': 'open.accepted', 'observed': 'decoded', 'expected': 'PyAsn1Error'}]
    d = CM.decode_to_abs(case['dec'], case['bytes'], T, B.to_spec(T)) if case['spec'] else raw_decode(case['dec'], case['bytes'])
    if d[0] == 'exc' and isinstance(d[1], pyerr.PyAsn1Error):
        return []
    return [{'clause': 'accepted', 'observed': repr(d)[:200], 'expected': 'PyAsn1Error'}]
