"""C01 - BER encode/decode round trip under every encoder mode (E1 product enumeration)."""
from mc.checks import codec_matrix as CM
from mc.model import x690 as M
from mc.model import universe as U
from mc.core.runner import guarded, Result, pyasn1_site, exc_text

PROPERTY = 'C01'
LEVEL = 'exploration'
RULE = ('E1 exhaustive product: every (type, value) of universe slices LEAF,BIG,TAGS,REC,OF,CH,NEST '
        'x defMode in {True,False} x maxChunkSize (quick {0,1,2,1000}; thorough {0,1,2,3,7,1000}); '
        'for types without a string leaf the encoder output is first asserted identical for all chunk '
        'sizes and then decoded once per defMode. A case (T,v,defMode,chunk) is non-trivial when T is '
        'constructed or tagged, or the configuration is indefinite/chunked, or v is a boundary value '
        '(every generated value is a listed boundary value); distinct = distinct digest of '
        '(T,v,defMode,chunk).')
ASSUMPTIONS = [
    'reference model mc/model/x690.py (independent X.690 reader) - validated by selftest/test_model.py',
    'abstract values are read with non-mutating accessors (mc/bind/pyasn1_bind.py abs_of)',
    'base-10 REAL values compared numerically with 1e-12 relative tolerance',
    'CPython 3.12, PYTHONHASHSEED=0',
]


def check_case(c, tier, R):
    chunks = CM.chunk_sizes(tier)
    stringy = U.has_string(c.T)
    for defMode in (True, False):
        if stringy:
            todo = chunks
        else:
            # encoder output must not depend on maxChunkSize when there is no string leaf
            base = c.encode('ber', defMode=defMode, maxChunkSize=0)
            for ch in chunks[1:]:
                other = c.encode('ber', defMode=defMode, maxChunkSize=ch)
                R.evaluations += 1
                if base[0] == 'ok' and other[0] == 'ok' and base[1] != other[1]:
                    R.violation('encode.chunk_dependence', c.record(defMode=defMode, chunk=ch),
                                other[1].hex(), base[1].hex(), 'ber.encoder',
                                c.feats | {'cfg:def' if defMode else 'cfg:indef'}, c.idx)
            todo = (0,)
        for ch in todo:
            R.evaluations += 1
            cfgf = {'cfg:def' if defMode else 'cfg:indef'}
            if ch:
                cfgf.add('cfg:chunked')
                if stringy:
                    cfgf.add('cfg:chunked_string')
            feats = c.feats | cfgf
            R.nontrivial((c.T, M.freeze(c.v), defMode, ch))
            rec = c.record(defMode=defMode, chunk=ch)
            st = c.encode('ber', defMode=defMode, maxChunkSize=ch)
            opts = ', defMode=%r, maxChunkSize=%r' % (defMode, ch)
            if st[0] == 'exc':
                R.violation('encode.error', rec, CM.exc_text(st[1]), 'encoding succeeds',
                            pyasn1_site(st[1]), feats, c.idx, CM.script_for(c, 'ber', opts))
                continue
            data = st[1]
            ok, why = CM.model_reads(c.T, data, c.v)
            feats = feats | {'encoder_output_ok' if ok else 'encoder_output_bad'}
            if not ok:
                feats = feats | c.kf('ber', data, defMode, ch)
            d = CM.decode_to_abs('ber', data, c.T, c.spec)
            if d[0] == 'exc':
                R.violation('decode.error', rec, CM.exc_text(d[1]) + ' on ' + data[:40].hex(),
                            'decodes to %r' % (c.v,), pyasn1_site(d[1]), feats, c.idx,
                            CM.script_for(c, 'ber', opts))
                continue
            if d[0] == 'notvalue':
                R.violation('roundtrip.notvalue', rec, d[1], 'a value object', 'ber.decoder', feats, c.idx,
                            CM.script_for(c, 'ber', opts))
                continue
            if d[2] != b'':
                R.violation('roundtrip.remainder', rec, 'remainder %s of %s' % (d[2].hex(), data[:40].hex()),
                            'empty remainder', 'ber.decoder', feats, c.idx, CM.script_for(c, 'ber', opts))
                continue
            if not M.values_equal(c.T, d[1], c.v):
                R.violation('roundtrip.value', rec, '%r from %s' % (d[1], data[:40].hex()), repr(c.v),
                            'ber.decoder', feats, c.idx, CM.script_for(c, 'ber', opts))
                continue
            for f in feats:
                R.features[f] += 1


def check_real_bases(c, R):
    """REAL: the encoder's binEncBase option (8, 16) is one more encoder mode for base-2 values"""
    for base in (8, 16):
        R.evaluations += 1
        R.nontrivial((c.T, M.freeze(c.v), 'binEncBase', base))
        feats = c.feats | {'cfg:binEncBase%d' % base}
        rec = c.record(binEncBase=base)
        st = c.encode_real_base(base)
        if st[0] == 'exc':
            R.violation('encode.error', rec, CM.exc_text(st[1]), 'encoding succeeds', pyasn1_site(st[1]), feats, c.idx)
            continue
        data = st[1]
        ok, why = CM.model_reads(c.T, data, c.v)
        if not ok:
            R.violation('roundtrip.value', rec, 'binEncBase=%d: %s: %s' % (base, data.hex(), why), repr(c.v), 'ber.encoder',
                        feats | {'encoder_output_bad'}, c.idx)
            continue
        d = CM.decode_to_abs('ber', data, c.T, c.spec)
        if d[0] != 'ok' or d[2] != b'' or not M.values_equal(c.T, d[1], c.v):
            R.violation('roundtrip.value', rec, 'binEncBase=%d: %r from %s' % (base, d[1:] if d[0] != 'exc' else CM.exc_text(d[1]), data.hex()),
                        repr(c.v), 'ber.decoder', feats | {'encoder_output_ok'}, c.idx)
        else:
            R.features['cfg:binEncBase%d' % base] += 1


def shard(tier, i, n, seed):
    R = Result()
    for idx, name, T, v in CM.iter_cases(tier, i, n, seed):
        try:
            c = CM.Case(idx, name, T, v)
        except Exception as e:
            R.violation('build.error', {'slice': name, 'T': T, 'v': v}, CM.exc_text(e),
                        'value object can be built', pyasn1_site(e), CM.case_features(T, v), idx)
            continue
        guarded(R, lambda: check_case(c, tier, R), c.record(), c.feats, c.idx, cpu_limit=180)
        if c.is_binary_real():
            guarded(R, lambda: check_real_bases(c, R), c.record(), c.feats, c.idx, cpu_limit=180)
        R.features['slice:' + name] += 1
        if idx % 9973 == seed % 9973:
            R.sample({'T': M.show_type(T), 'v': v, 'ber_def': c.encode('ber', defMode=True)[1].hex()
                      if c.encode('ber', defMode=True)[0] == 'ok' else None})
    return R


def replay(case):
    R = Result()
    c = CM.Case(0, case.get('slice', '?'), case['T'], case['v'])
    check_case(c, 'thorough', R)
    return [v for v in R.violations
            if v['case'].get('defMode') == case.get('defMode', v['case'].get('defMode'))
            and v['case'].get('chunk') == case.get('chunk', v['case'].get('chunk'))]
