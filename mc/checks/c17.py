"""C17 - native-Python codec round trip and Python-value encoding equivalence (E1)."""
import itertools

from mc.checks import codec_matrix as CM
from mc.core.runner import guarded, Result, pyasn1_site, exc_text
from mc.model import x690 as M
from mc.model import universe as U
from mc.bind import pyasn1_bind as B

from pyasn1.codec.native import encoder as nat_enc, decoder as nat_dec
from pyasn1.codec.ber import encoder as ber_enc
from pyasn1.codec.cer import encoder as cer_enc
from pyasn1.codec.der import encoder as der_enc

PROPERTY = 'C17'
LEVEL = 'exploration'
RULE = ('E1 exhaustive: every (type, value) of universe slices LEAF, BIG, REC(stride 2 quick), OF, CH, NEST, TAGS(depth<=1): '
        '(1) native.decode(native.encode(obj), asn1Spec=T) has the same abstract content (REAL compared as floats, '
        'rel 1e-12); (2) for each of BER (definite; indefinite; maxChunkSize=2; indefinite+maxChunkSize=1), CER, DER: '
        'encode(plain Python tree, asn1Spec=T, **opts) == encode(value object, **opts), '
        'OPTIONAL members absent from the mapping (types containing ANY excluded for this path); (3) the same for BER/CER/DER with the tree produced by the native encoder (types containing REAL excluded: floats round) and with the mapping keys written in reverse order. Non-trivial = '
        'constructed type or boundary value; distinct = digest of (T, v, clause, codec).')
ASSUMPTIONS = [
    'the plain Python tree is built by mc.bind.pyasn1_bind.py_tree: dict for SEQUENCE/SET/CHOICE, list for '
    'SEQUENCE OF/SET OF, scalars as documented constructor arguments, binary string for BIT STRING',
    'CPython 3.12, PYTHONHASHSEED=0',
]
ENCODERS = (('ber', ber_enc.encode, {}), ('cer', cer_enc.encode, {}), ('der', der_enc.encode, {}),
            ('ber/indef', ber_enc.encode, {'defMode': False}),
            ('ber/chunk2', ber_enc.encode, {'maxChunkSize': 2}),
            ('ber/indef+chunk1', ber_enc.encode, {'defMode': False, 'maxChunkSize': 1}))


def reorder(tree):
    """the same plain Python tree with every mapping's keys in reverse order (lists keep their order)"""
    if isinstance(tree, dict):
        return dict((k, reorder(tree[k])) for k in reversed(list(tree)))
    if isinstance(tree, list):
        return [reorder(x) for x in tree]
    return tree


def float_equal(T, a, b):
    """values_equal with REAL compared as Python floats"""
    T = M.strip_con(T)
    k = T[0]
    if k == 'TAG':
        return float_equal(T[4], a, b)
    if k == 'REAL':
        fa = to_float(a)
        fb = to_float(b)
        if fa == fb:
            return True
        if fa in (float('inf'), float('-inf')) or fb in (float('inf'), float('-inf')):
            return False
        return abs(fa - fb) <= 1e-12 * max(abs(fa), abs(fb))
    if k in ('SEQ', 'SET'):
        if not (isinstance(a, dict) and isinstance(b, dict)) or set(a) != set(b):
            return False
        ft = {f[0]: f[1] for f in T[1]}
        return all(float_equal(ft[n], a[n], b[n]) for n in a)
    if k in ('SEQOF', 'SETOF'):
        if k == 'SETOF':
            return M.values_equal(T, a, b) or (len(a) == len(b) and all(float_equal(T[1], x, y) for x, y in zip(a, b)))
        return isinstance(a, list) and isinstance(b, list) and len(a) == len(b) and all(float_equal(T[1], x, y) for x, y in zip(a, b))
    if k == 'CHOICE':
        return a[0] == b[0] and float_equal(dict(T[1])[a[0]], a[1], b[1])
    return M.values_equal(T, a, b)


def to_float(v):
    if v == 'inf':
        return float('inf')
    if v == '-inf':
        return float('-inf')
    try:
        return float(M.real_value(v))
    except OverflowError:
        return float('inf') if M.real_value(v) > 0 else float('-inf')


def real_overflows(T, v):
    def chk(t, x):
        t = M.strip_con(t)
        k = t[0]
        if k == 'TAG':
            return chk(t[4], x)
        if k == 'REAL' and isinstance(x, tuple):
            try:
                float(M.real_value(x))
                if M.real_value(x) != 0 and float(M.real_value(x)) == 0.0:
                    return True
            except OverflowError:
                return True
            return False
        if k in ('SEQ', 'SET'):
            ft = {f[0]: f[1] for f in t[1]}
            return any(chk(ft[n], y) for n, y in x.items())
        if k in ('SEQOF', 'SETOF'):
            return any(chk(t[1], y) for y in x)
        if k == 'CHOICE':
            return chk(dict(t[1])[x[0]], x[1])
        return False
    return chk(T, v)


def check_case(idx, sl, T, v, R):
    feats0 = CM.case_features(T, v)
    spec = B.to_spec(T)
    rec = {'slice': sl, 'T': T, 'v': v}
    # (1) native round trip
    if not real_overflows(T, v):
        R.evaluations += 1
        R.nontrivial((T, M.freeze(v), 'native'))
        feats = feats0 | {'native'}
        if contains_empty_bits(T, v):
            feats.add('empty_bitstring')
        if absent_all_optional_record(T, v):
            feats.add('absent_all_optional_record')
        try:
            obj = B.build(T, v, spec)
            py = nat_enc.encode(obj)
        except Exception as e:
            R.violation('native.encode.error', rec, exc_text(e), 'built-in Python objects', pyasn1_site(e), feats, idx)
            py = None
        if py is not None or M.base_of(T)[0] == 'NULL':
            try:
                back = nat_dec.decode(py, asn1Spec=spec)
                a = B.abs_of(back, T, spec)
            except B.NotAValue as e:
                R.violation('native.notvalue', dict(rec, py=repr(py)), '%s after native decode of %r' % (e, py), repr(v),
                            'native.decoder', feats, idx)
            except Exception as e:
                R.violation('native.decode.error', dict(rec, py=repr(py)), exc_text(e) + ' on %r' % (py,), repr(v),
                            pyasn1_site(e), feats, idx)
            else:
                if not float_equal(T, a, v):
                    R.violation('native.value', dict(rec, py=repr(py)), '%r via %r' % (a, py), repr(v), 'native', feats, idx)
                else:
                    for f in feats:
                        R.features[f] += 1
    # (2) Python value + schema == value object
    if 'any' in feats0:
        return
    tree = B.py_tree(T, v)
    trees = [('pyvalue', tree)]
    rtree = reorder(tree)
    if repr(rtree) != repr(tree):
        # the same mapping written with its keys in another order
        trees.append(('pyvalue.reordered', rtree))
    if 'real' not in feats0:
        # the library's own idea of the plain Python tree (NULL is None there): the native encoder's output
        try:
            trees.append(('pyvalue.native_tree', nat_enc.encode(B.build(T, v, spec))))
        except Exception:
            pass
    for (clause, tree), (ename, enc, opts) in itertools.product(trees, ENCODERS):
        if clause != 'pyvalue' and (opts or tree is None):
            continue
        if 'chunk' in ename and not U.has_string(T):
            continue
        R.evaluations += 1
        R.nontrivial((T, M.freeze(v), clause, ename))
        feats = feats0 | {'pyvalue', 'enc:' + ename} | ({'native_tree'} if clause == 'pyvalue.native_tree' else set())
        if has_absent_optional(T, v):
            feats.add('absent_optional')
        if absent_all_optional_record(T, v):
            feats.add('absent_all_optional_record')
        if U.contains(T, lambda t: t[0] in ('SEQ', 'SET') and any(f[2] == 'D' and M.base_of(f[1])[0] == 'NULL' for f in t[1])):
            feats.add('default_null')
        if default_constructed_equal(T, v):
            feats.add('default_constructed_equal')
        try:
            ref = enc(B.build(T, v, spec), **opts)
        except Exception:
            R.features['pyvalue.object_path_fails'] += 1      # C01-C03 report encoder failures
            continue
        try:
            got = enc(tree, asn1Spec=spec, **opts)
        except Exception as e:
            R.violation(clause + '.error', dict(rec, enc=ename, tree=repr(tree)), exc_text(e) + ' for %r' % (tree,),
                        ref[:40].hex(), pyasn1_site(e), feats, idx)
            continue
        if got != ref:
            v_py = v
            if clause == 'pyvalue.native_tree':
                # the abstract value the native tree stands for (the native encoder materialises an absent
                # all-optional record: recorded finding K11)
                try:
                    v_py = B.abs_of(nat_dec.decode(tree, asn1Spec=spec), T, spec)
                except Exception:
                    v_py = v
            feats = feats | explain_paths(T, v, ename.split('/')[0], opts, ref, got, clause == 'pyvalue.native_tree', v_py)
            R.violation(clause + '.bytes', dict(rec, enc=ename, tree=repr(tree)), got[:60].hex() + ' for %r' % (tree,),
                        ref[:60].hex(), ename + '.encoder', feats, idx)
        else:
            for f in feats:
                R.features[f] += 1


OBJ_FLAGS = ('K1', 'K2', 'K4', 'K11')
PY_FLAGS = ('K1', 'K2', 'K4', 'K9')


def explain_paths(T, v, codec, opts, ref, got, native_tree=False, v_py=None):
    """both outputs are byte-identical to the emulation of the recorded defects of their path (the value-object
    path has K11, the value-plus-schema path has K9): name the defects that make them differ"""
    from mc.model import emu
    dm, ch = opts.get('defMode', True), opts.get('maxChunkSize', 0)
    PY = PY_FLAGS + (('K9n',) if native_tree else ())
    try:
        v_py = v if v_py is None else v_py
        if emu.predict(T, v, codec, OBJ_FLAGS, dm, ch) != ref or emu.predict(T, v_py, codec, PY, dm, ch) != got:
            return set()
        out = set()
        if not M.values_equal(T, v, v_py):
            if not absent_all_optional_record(T, v):
                return set()
            out.add('kf:K11')
        if emu.predict(T, v_py, codec, [f for f in PY if f not in ('K9', 'K9n')], dm, ch) != got:
            out.add('kf:K9')
        if emu.predict(T, v, codec, [f for f in OBJ_FLAGS if f != 'K11'], dm, ch) != ref:
            out.add('kf:K11')
        return out
    except Exception:
        return set()


def contains_empty_bits(T, v):
    T = M.strip_con(T)
    k = T[0]
    if k == 'TAG':
        return contains_empty_bits(T[4], v)
    if k == 'BITS':
        return v == ''
    if k in ('SEQ', 'SET'):
        ft = {f[0]: f[1] for f in T[1]}
        return any(contains_empty_bits(ft[n], x) for n, x in v.items())
    if k in ('SEQOF', 'SETOF'):
        return any(contains_empty_bits(T[1], x) for x in v)
    if k == 'CHOICE':
        return contains_empty_bits(dict(T[1])[v[0]], v[1])
    return False


def absent_all_optional_record(T, v):
    """an absent OPTIONAL component whose type is a SEQUENCE/SET without mandatory members (finding K11)"""
    from mc.model.emu import all_optional_record
    T = M.strip_con(T)
    k = T[0]
    if k == 'TAG':
        return absent_all_optional_record(T[4], v)
    if k in ('SEQ', 'SET'):
        for name, ft, opt, d in T[1]:
            if name not in v:
                if opt == 'O' and all_optional_record(ft):
                    return True
            elif absent_all_optional_record(ft, v[name]):
                return True
        return False
    if k in ('SEQOF', 'SETOF'):
        return any(absent_all_optional_record(T[1], x) for x in v)
    if k == 'CHOICE':
        return absent_all_optional_record(dict(T[1])[v[0]], v[1])
    return False


def has_absent_optional(T, v):
    T = M.strip_con(T)
    k = T[0]
    if k == 'TAG':
        return has_absent_optional(T[4], v)
    if k in ('SEQ', 'SET'):
        for name, ft, opt, d in T[1]:
            if opt == 'O' and name not in v:
                return True
            if name in v and has_absent_optional(ft, v[name]):
                return True
        return False
    if k in ('SEQOF', 'SETOF'):
        return any(has_absent_optional(T[1], x) for x in v)
    if k == 'CHOICE':
        return has_absent_optional(dict(T[1])[v[0]], v[1])
    return False


def default_constructed_equal(T, v):
    """some DEFAULT component of constructed/CHOICE type holds exactly its default value"""
    T = M.strip_con(T)
    k = T[0]
    if k == 'TAG':
        return default_constructed_equal(T[4], v)
    if k in ('SEQ', 'SET'):
        for name, ft, opt, d in T[1]:
            if name not in v:
                continue
            if opt == 'D' and M.base_of(ft)[0] in ('SEQ', 'SET', 'SEQOF', 'SETOF', 'CHOICE') and \
                    M.values_equal(ft, v[name], M.thaw(d)):
                return True
            if default_constructed_equal(ft, v[name]):
                return True
        return False
    if k in ('SEQOF', 'SETOF'):
        return any(default_constructed_equal(T[1], x) for x in v)
    if k == 'CHOICE':
        return default_constructed_equal(dict(T[1])[v[0]], v[1])
    return False


def cases(tier):
    idx = -1
    for sl in ('LEAF', 'BIG', 'REC', 'OF', 'CH', 'NEST', 'TAGS'):
        k = -1
        for T, v in U.SLICES[sl](tier):
            k += 1
            if sl == 'REC' and tier == 'quick' and k % 2:
                continue
            if sl == 'TAGS' and len(M.tag_stack(T)) > 2:
                continue
            idx += 1
            yield idx, sl, T, v


def shard(tier, i, n, seed):
    R = Result()
    for idx, sl, T, v in cases(tier):
        if (idx + seed) % n != i:
            continue
        guarded(R, lambda: check_case(idx, sl, T, v, R), {'slice': sl, 'T': T, 'v': v}, CM.type_features(T), idx, cpu_limit=180)
        R.features['slice:' + sl] += 1
        if idx % 4001 == seed % 4001:
            R.sample({'T': M.show_type(T), 'v': v, 'python_tree': repr(B.py_tree(T, v))})
    return R


def replay(case):
    R = Result()
    check_case(0, case.get('slice', '?'), case['T'], case['v'], R)
    return R.violations
