"""E1 product enumeration engine shared by C01, C02, C03 and C07.

For every (T, v) of the universe slices and every codec configuration it runs the real
pyasn1 encoders/decoders and compares with the independent X.690 reference model.
"""
import sys

from mc.model import x690 as M
from mc.model import universe as U
from mc.bind import pyasn1_bind as B
from mc.bind import script as S
from mc.core.runner import Result, pyasn1_site, exc_text, digest64

from pyasn1.codec.ber import encoder as ber_enc, decoder as ber_dec
from pyasn1.codec.cer import encoder as cer_enc, decoder as cer_dec
from pyasn1.codec.der import encoder as der_enc, decoder as der_dec
from pyasn1 import error as pyerr

sys.setrecursionlimit(3000)

SLICE_NAMES = ('LEAF', 'BIG', 'TAGS', 'REC', 'OF', 'CH', 'NEST')

DECODERS = {'ber': ber_dec.decode, 'cer': cer_dec.decode, 'der': der_dec.decode}


def chunk_sizes(tier):
    return (0, 1, 2, 1000) if tier == 'quick' else (0, 1, 2, 3, 7, 1000)


def _is_prim(T):
    T = M.strip_con(T)
    return T[0] not in ('SEQ', 'SET', 'SEQOF', 'SETOF', 'CHOICE', 'ANY', 'TAG')


def type_features(T, v=None):
    f = set()

    def walk(T, top):
        T = M.strip_con(T)
        k = T[0]
        if k == 'TAG':
            if T[1] == 'E':
                inner = M.strip_con(T[4])
                # explicit tag whose content is a primitive encoding
                b = inner
                while b[0] == 'TAG' and b[1] == 'I':
                    b = M.strip_con(b[4])
                if _is_prim(b):
                    f.add('explicit_over_primitive')
                    if top:
                        f.add('top_explicit_over_primitive')
                if b[0] == 'ANY':
                    f.add('explicit_over_any')
                if b[0] == 'CHOICE':
                    f.add('explicit_over_choice')
            walk(T[4], top)
            return
        if k == 'STR':
            f.add('charstr')
            if T[1] in ('UTF8String', 'BMPString', 'UniversalString'):
                f.add('unicode_charstr')
            if T[1] in ('GeneralizedTime', 'UTCTime'):
                f.add('timestr')
        elif k == 'BITS':
            f.add('bitstr')
        elif k == 'OCTS':
            f.add('octstr')
        elif k == 'REAL':
            f.add('real')
        elif k == 'ANY':
            f.add('any')
        elif k == 'CHOICE':
            f.add('choice')
            for _, a in T[1]:
                walk(a, False)
        elif k in ('SEQ', 'SET'):
            f.add(k.lower())
            for fld in T[1]:
                if k == 'SET':
                    ft = M.strip_con(fld[1])
                    if ft[0] == 'TAG' and ft[1] == 'E':
                        f.add('set_explicit_member')
                    if ft[0] == 'TAG' and len(M.tag_stack(ft)) > 1:
                        f.add('set_multitag_member')
                    if ft[0] == 'CHOICE':
                        f.add('set_choice_member')
                walk(fld[1], False)
        elif k in ('SEQOF', 'SETOF'):
            f.add(k.lower())
            walk(T[1], False)
    walk(T, True)
    return f


def value_features(T, v):
    f = set()

    def walk(T, v):
        T = M.strip_con(T)
        k = T[0]
        if k == 'TAG':
            return walk(T[4], v)
        if k == 'REAL':
            if isinstance(v, tuple) and v[1] == 10 and v[0] != 0:
                f.add('real10')
        elif k == 'STR':
            try:
                n = len(M.str_octets(T[1], v))
            except Exception:
                n = 0
            if n != len(v):
                f.add('multioctet_chars')
            if n > 1000:
                f.add('bigstr')
            if n > 0:
                f.add('nonempty_str')
        elif k == 'ANY':
            try:
                if M.der_rules_tree(bytes(v)):
                    f.add('any_nonder')
            except M.ReadError:
                f.add('any_nonder')
        elif k == 'OCTS':
            if len(v) > 1000:
                f.add('bigstr')
            if len(v) > 0:
                f.add('nonempty_str')
        elif k == 'BITS':
            if len(v) > 7992:
                f.add('bigstr')
            if len(v) > 0:
                f.add('nonempty_str')
        elif k in ('SEQ', 'SET'):
            ft = {x[0]: x[1] for x in T[1]}
            for n_, x in v.items():
                walk(ft[n_], x)
        elif k in ('SEQOF', 'SETOF'):
            for x in v:
                walk(T[1], x)
        elif k == 'CHOICE':
            walk(dict(T[1])[v[0]], v[1])
    walk(T, v)
    return f


def case_features(T, v):
    return type_features(T) | value_features(T, v)


class Case(object):
    """One (T, v) with lazily computed real encodings."""

    def __init__(self, idx, slice_name, T, v):
        self.idx = idx
        self.slice = slice_name
        self.T = T
        self.v = v
        self.spec = B.to_spec(T)
        self.obj = B.build(T, v, self.spec)
        self.feats = case_features(T, v)
        self._enc = {}

    def encode(self, codec, **opts):
        key = (codec,) + tuple(sorted(opts.items()))
        if key not in self._enc:
            try:
                # a fresh value object for every encoder call: what earlier calls do to an object is the
                # subject of C04/C12, not of the per-value codec properties
                obj = B.build(self.T, self.v, self.spec)
                if codec == 'ber':
                    out = ber_enc.encode(obj, **opts)
                elif codec == 'cer':
                    out = cer_enc.encode(obj, **opts)
                else:
                    out = der_enc.encode(obj, **opts)
                self._enc[key] = ('ok', out)
            except RecursionError as e:
                self._enc[key] = ('exc', e)
            except Exception as e:
                self._enc[key] = ('exc', e)
        return self._enc[key]

    def encode_real_base(self, base):
        """BER encoding of a top-level base-2 REAL value with the documented binEncBase knob set on the value"""
        key = ('realbase', base)
        if key not in self._enc:
            try:
                obj = B.build(self.T, self.v, self.spec)
                obj.binEncBase = base
                self._enc[key] = ('ok', ber_enc.encode(obj))
            except Exception as e:
                self._enc[key] = ('exc', e)
        return self._enc[key]

    def is_binary_real(self):
        return M.base_of(self.T)[0] == 'REAL' and isinstance(self.v, tuple) and self.v[1] == 2 and self.v[0] != 0 \
            and len(M.tag_stack(self.T)) <= 2

    def kf(self, codec, data, defMode=True, chunk=0):
        """features naming the recorded encoder defects that exactly explain `data` (emu.classify)"""
        from mc.model import emu
        key = ('kf', codec, defMode, chunk)
        if key not in self._enc:
            self._enc[key] = emu.classify(self.T, self.v, codec, data, defMode, chunk)
        return self._enc[key]

    def record(self, **cfg):
        d = {'slice': self.slice, 'T': self.T, 'v': self.v}
        d.update(cfg)
        return d


def decode_to_abs(dec, data, T, spec):
    """-> ('ok', abstract, rest) | ('notvalue', msg, rest) | ('exc', exception)"""
    try:
        r = DECODERS[dec](data, asn1Spec=spec)
    except RecursionError as e:
        return ('exc', e)
    except Exception as e:
        return ('exc', e)
    try:
        obj, rest = r
    except Exception:
        return ('notvalue', 'decode() returned %r' % (r,), None)
    try:
        a = B.abs_of(obj, T, spec)
    except B.NotAValue as e:
        return ('notvalue', str(e), rest)
    return ('ok', a, rest)


def iter_cases(tier, i, n, seed, names=SLICE_NAMES):
    """Yield Case objects of shard i (index-mod sharding, rotated by seed)."""
    idx = -1
    for name in names:
        for T, v in U.SLICES[name](tier):
            idx += 1
            if (idx + seed) % n != i:
                continue
            yield idx, name, T, v


def model_reads(T, data, v):
    """-> (True, None) if the independent reader recovers v, else (False, reason)"""
    try:
        got = M.read(T, data)
    except M.ReadError as e:
        return False, 'reference reader rejects: %s' % e
    if not M.values_equal(T, got, v):
        return False, 'reference reader yields %r' % (got,)
    return True, None


REAL_MANTISSAS = (1, 3, 5, 6, 7, 12, 127, 128, 255, 256, 1000, 65535, 65537, 2 ** 53 + 1, 2 ** 60 + 1, 2 ** 64 + 2 ** 63 + 1)


def real_base_sweep(tier):
    """BER REAL under the documented encoding-base knob: every (mantissa, exponent) of a small grid x
    base in {2, 8, 16 on the value; None = automatic, set on the encoder} -> (m, e, base, ('ok', bytes) | ('exc', e))"""
    from pyasn1.type import univ
    span = 26 if tier == 'quick' else 70
    for m0 in REAL_MANTISSAS:
        for sign in (1, -1):
            m = sign * m0
            for e in range(-span, span + 1):
                for base in (2, 8, 16, None):
                    obj = univ.Real((m, 2, e))
                    saved = ber_enc.RealEncoder.binEncBase
                    try:
                        if base is None:
                            ber_enc.RealEncoder.binEncBase = None
                        else:
                            obj.binEncBase = base
                        try:
                            st = ('ok', ber_enc.encode(obj))
                        except Exception as ex:
                            st = ('exc', ex)
                    finally:
                        ber_enc.RealEncoder.binEncBase = saved
                    yield m, e, base, st


def script_for(c, codec, opts=''):
    try:
        return S.roundtrip_script(c.T, c.v, codec, opts)
    except Exception:
        return None
