"""C08 - malformed input fails cleanly: only library errors, always terminates.

(a) every byte string of length <= L over a structural alphabet; (b) the complete 1-mutation
neighbourhood of seed encodings; x decoders x {one-shot, streaming} x guiding types.
"""
import itertools
import signal

from mc.checks import stream_corpus as SC
from mc.checks import codec_matrix as CM
from mc.core.runner import guarded, Result, pyasn1_site, exc_text
from mc.env import streams as ST
from mc.model import x690 as M
from mc.model import forms as F
from mc.model import universe as U
from mc.bind import pyasn1_bind as B

from pyasn1 import error as pyerr
from pyasn1.type import base as pybase
from pyasn1.codec.ber import decoder as ber_dec
from pyasn1.codec.cer import decoder as cer_dec
from pyasn1.codec.der import decoder as der_dec

PROPERTY = 'C08'
LEVEL = 'fault_enumeration'
SIGMA = bytes.fromhex('00 01 02 03 04 05 06 09 0A 0C 13 17 18 1E 1F 23 24 30 31 7F 80 81 82 84 A0 BF FF')
RULE = ('(a) EVERY byte string of length <= L (L=3 quick, 4 thorough) over the 27-octet structural alphabet; (a2) under each of 12 primitive universal tags EVERY content string of length <= 3/4 over a 16-octet content alphabet, and REAL under every first content octet x 17 payloads; '
        '(a4) 14 string types x 16 texts (incl. octets invalid in the character set of the type, odd lengths for 2/4-octet sets) x 19 ways of framing a string (primitive; 1-2 fragments; a fragment that is itself constructed, definite or indefinite, up to two levels; empty; wrong fragment type; definite and indefinite outer header), bare and inside SEQUENCEs, decoded without a type, as ANY and under the string type; (a5) records with an open type field ([0] IMPLICIT ANY members of a SET OF; [1] EXPLICIT ANY OPTIONAL) resolved while decoding: every member content of length <= 3 (thorough 4) over an 8-octet alphabet x 4 governing values x definite/indefinite framing at each level, the result must hold value objects only; (a3) boundary magnitudes: declared lengths within -13..+2 (thorough -20..+5) of 2**31, 2**32, 2**63, 2**64 under 12 tag kinds, minimal and padded length form, bare and inside an indefinite SEQUENCE; decimal REALs (NR1/NR2/NR3) with 1..4400 digits and exponents up to 4400 digits; binary REALs with 2..21-octet exponents in every base/scale; 127..5000-octet INTEGER/OID/ENUMERATED/BIT STRING/BOOLEAN/NULL contents; '
        'Sigma = %s; (b) the complete single-mutation neighbourhood (replace each octet by each sigma, delete, '
        'insert sigma, truncate, rewrite first length octet to {00,7F,80,81,84FFFFFFFF,87FF..,88FF..,8901 00..,FE 01..}, empty the content of each constructed element) of every seed encoding '
        '(cover set, all forms, |e| <= 24 quick / 40 thorough); (a3 also as a real file on disk, buffered and unbuffered;) x decoders {BER,CER,DER} x {one-shot on bytes, '
        'streaming on an instrumented seekable stream} x guiding type in {none} + 8 specs (quick: none + the 4 '
        'most permissive for (a)). Non-trivial = input is not itself a valid complete encoding for the spec; '
        'distinct = digest of (bytes, decoder, mode, spec).' % SIGMA.hex())
ASSUMPTIONS = [
    'nesting depth of inputs is bounded by their length (<= 40 octets), so RecursionError is never legitimate',
    'a per-case watchdog of 5 s of process CPU time (ITIMER_VIRTUAL, so machine load cannot trip it) turns a hang into a violation',
    'CPython 3.12, PYTHONHASHSEED=0',
]
DECODERS = CM.DECODERS
STREAMERS = {'ber': ber_dec.StreamingDecoder, 'cer': cer_dec.StreamingDecoder, 'der': der_dec.StreamingDecoder}

INT, BOOL, OCTS, BITS, NULL, ANY = U.INT, U.BOOL, U.OCTS, U.BITS, U.NULL, U.ANY
SPECS = [
    ('none', None),
    ('seq-opt', ('SEQ', (('a', INT, 'R', None), ('b', U.I(0, OCTS), 'O', None), ('c', BOOL, 'D', False)))),
    ('any', ANY),
    ('choice', ('CHOICE', (('i', INT), ('s', OCTS), ('q', ('SEQOF', BOOL)), ('e', U.E(0, NULL))))),
    ('setof-any', ('SETOF', ANY)),
    ('int', INT),
    ('bits', BITS),
    ('set', ('SET', (('x', INT, 'R', None), ('y', U.E(1, BOOL), 'O', None), ('z', U.UTF8, 'O', None)))),
    ('seqof-real', ('SEQOF', U.REAL)),
    ('utf8', U.UTF8),
    ('oid', U.OID),
]


MAGNITUDE_SPECS = [
    ('int-range', ('CON', ('VR', 0, 10), INT)),
    ('seq-real', ('SEQ', (('r', U.REAL, 'R', None),))),
    ('seq-int-opt', ('SEQ', (('i', ('CON', ('VR', -5, 5), INT), 'R', None), ('j', INT, 'O', None)))),
    ('seqof-real-size', ('CON', ('SZ', 2, 2), ('SEQOF', U.REAL))),
    ('setof-int-size', ('CON', ('SZ', 1, 1), ('SETOF', INT))),
    ('bits-size', ('CON', ('SZ', 1, 2), BITS)),
    ('enum', ('ENUM', (('a', 0), ('b', 1)))),
    ('int-union', ('CON', ('OR', ('VR', 0, 5), ('VR', 10, 20)), INT)),
    ('int-except', ('CON', ('AND', ('VR', -9, 9), ('NOT', ('SV', 3))), INT)),
    ('oid', U.OID),
]


STRING_SPECS = [('none', None), ('any', ANY), ('tag04', OCTS), ('tag0c', U.UTF8), ('tag12', U.STR('NumericString')),
                ('tag13', U.STR('PrintableString')), ('tag14', U.STR('TeletexString')), ('tag16', U.STR('IA5String')),
                ('tag17', U.STR('UTCTime')), ('tag18', U.STR('GeneralizedTime')), ('tag19', U.STR('GraphicString')),
                ('tag1a', U.STR('VisibleString')), ('tag1b', U.STR('GeneralString')), ('tag1c', U.STR('UniversalString')),
                ('tag1e', U.STR('BMPString')), ('tag07', U.STR('ObjectDescriptor'))]


class Timeout(Exception):
    pass


def _alarm(signum, frame):
    raise Timeout()


def sentinel_inside(obj, depth=0):
    """a decoded value must be made of value objects only: no end-of-octets marker, None or bare placeholder among
    the stored members (raw walk, no pyasn1 method is called)"""
    from pyasn1.codec.ber import eoo
    if depth > 30:
        return None
    cv = getattr(obj, '__dict__', {}).get('_componentValues', None)
    if cv is None or cv is pybase.noValue:
        return None
    members = list(cv.values()) if isinstance(cv, dict) else list(cv)
    for m in members:
        if m is pybase.noValue:
            continue
        if m is None or isinstance(m, eoo.EndOfOctets):
            return type(m).__name__
        bad = sentinel_inside(m, depth + 1)
        if bad:
            return bad
    return None


def judge_result(r):
    """-> None if acceptable, else (clause, text)"""
    if not isinstance(r, tuple) or len(r) != 2:
        return ('bad_return', 'decode returned %r' % (r,))
    obj, rest = r
    if isinstance(obj, pybase.Asn1Item):
        bad = sentinel_inside(obj)
        if bad:
            return ('sentinel_in_value', 'the returned value holds a %s object as a member' % bad)
    if obj is None:
        return ('none_value', 'value is None')
    if not isinstance(obj, pybase.Asn1Item):
        return ('non_asn1_value', 'value is %s' % type(obj).__name__)
    try:
        ok = obj.isValue
    except Exception as e:
        return ('isvalue_raises', exc_text(e))
    if not ok:
        return ('schema_value', 'value is a schema object (isValue false): %s' % type(obj).__name__)
    if not isinstance(rest, bytes):
        return ('bad_remainder', 'remainder is %s' % type(rest).__name__)
    return None


HANGS = [0]


def run_case(data, decname, spec, streaming):
    """-> (clause, text, site) or None"""
    if HANGS[0] >= 4:
        # every further non-terminating case would cost the full watchdog time: four are reported, the rest of this
        # worker's cases are not run (the check has failed already)
        return None
    signal.setitimer(signal.ITIMER_VIRTUAL, 5.0)
    try:
        if not streaming:
            try:
                r = DECODERS[decname](data, asn1Spec=spec, decodeOpenTypes=True)
            except pyerr.PyAsn1Error:
                return None
            bad = judge_result(r)
            if bad:
                return bad + ('decoder',)
            return None
        core = ST.ScheduledCore(data)
        s = ST.SeekableNB(core)
        steps = 0
        it = iter(STREAMERS[decname](s, asn1Spec=spec, decodeOpenTypes=True))
        while True:
            steps += 1
            if steps > len(data) + 4:
                return ('step_bound', 'more than %d next() steps' % (len(data) + 4), 'streaming')
            try:
                item = next(it)
            except StopIteration:
                break
            except pyerr.PyAsn1Error:
                break
            if isinstance(item, pyerr.SubstrateUnderrunError):
                # blocking stream at EOF: a short read makes the decoder report underrun; stop polling
                break
            bad = judge_result((item, b''))
            if bad:
                return bad + ('decoder',)
        if core.log.reads > 8 * len(data) + 16:
            return ('read_bound', '%d reads for %d octets' % (core.log.reads, len(data)), 'streaming')
        return None
    except Timeout:
        HANGS[0] += 1
        return ('hang', 'no termination within 5 s of CPU time', 'decoder')
    except MemoryError as e:
        return ('leak:MemoryError', exc_text(e), pyasn1_site(e))
    except RecursionError as e:
        return ('leak:RecursionError', exc_text(e), pyasn1_site(e))
    except Exception as e:
        return ('leak:' + type(e).__name__, exc_text(e), pyasn1_site(e))
    finally:
        signal.setitimer(signal.ITIMER_VIRTUAL, 0)


def alphabet_strings(L):
    for n in range(0, L + 1):
        for t in itertools.product(SIGMA, repeat=n):
            yield bytes(t)


def seeds(tier):
    maxlen = 24 if tier == 'quick' else 40
    seen = set()
    for name, form, T, v, e in SC.encodings():
        if len(e) <= maxlen and e not in seen:
            seen.add(e)
            yield name, form, T, e


def mutations(e):
    """Complete single-mutation neighbourhood (deduplicated)."""
    seen = {e}
    n = len(e)
    for i in range(n):
        for s in SIGMA:
            m = e[:i] + bytes([s]) + e[i + 1:]
            if m not in seen:
                seen.add(m)
                yield 'replace', m
    for i in range(n):
        m = e[:i] + e[i + 1:]
        if m not in seen:
            seen.add(m)
            yield 'delete', m
    for i in range(n + 1):
        for s in SIGMA:
            m = e[:i] + bytes([s]) + e[i:]
            if m not in seen:
                seen.add(m)
                yield 'insert', m
    for k in range(n):
        m = e[:k]
        if m not in seen:
            seen.add(m)
            yield 'truncate', m
    # rewrite the first length octet
    p = 1
    if e and e[0] & 0x1F == 0x1F:
        while p < n and e[p] & 0x80:
            p += 1
        p += 1
    if p < n:
        for rep in (b'\x00', b'\x7f', b'\x80', b'\x81', b'\x84\xff\xff\xff\xff', b'\x87' + b'\xff' * 7,
                    b'\x88' + b'\xff' * 8, b'\x89\x01' + b'\x00' * 8, b'\xfe' + b'\x01' * 126):
            m = e[:p] + rep + e[p + 1:]
            if m not in seen:
                seen.add(m)
                yield 'length', m


def hollow(e):
    """every constructed element of the seed emptied (definite: length 0; indefinite: end-of-octets only)"""
    try:
        root = M.tlv_tree(e)
    except M.ReadError:
        return

    def nodes(n):
        yield n
        for c in n.children or ():
            yield from nodes(c)
    for n in nodes(root):
        if n.constructed and n.content:
            ident = e[n.start:n.hdr_end - len(n.len_octets)]
            if n.indef:
                yield 'hollow', e[:n.start] + ident + b'\x80\x00\x00' + e[n.end:]
            else:
                # lengths of enclosing definite elements are NOT adjusted: that is a second kind of damage
                yield 'hollow', e[:n.start] + ident + b'\x00' + e[n.end:]
                inner_empty = rebuild(e, root, n)
                if inner_empty is not None:
                    yield 'hollow-consistent', inner_empty


def rebuild(e, root, target):
    """re-encode the tree with `target`'s content removed and all enclosing lengths consistent"""
    def enc(n):
        ident = e[n.start:n.hdr_end - len(n.len_octets)]
        if n is target:
            return ident + (b'\x80\x00\x00' if n.indef else b'\x00')
        if n.children is None or not n.constructed:
            return e[n.start:n.end]
        body = b''.join(enc(c) for c in n.children)
        if n.indef:
            return ident + b'\x80' + body + b'\x00\x00'
        return ident + M.length_octets(len(body)) + body
    try:
        return enc(root)
    except M.ModelError:
        return None


CONTENT_ALPHABET = bytes.fromhex('00 01 7f 80 81 ff 2e 2b 2d 30 31 45 20 6e 61 2c')
PRIMITIVE_TAGS = bytes.fromhex('01 02 03 05 06 09 0a 0c 13 17 18 1e')


def primitive_contents(tier):
    """every content string of length <= 3 (quick) / 4 over a content alphabet under every primitive
    universal tag; REAL additionally under every possible first content octet with a few payloads"""
    L = 3 if tier == 'quick' else 4
    for t in PRIMITIVE_TAGS:
        for n in range(0, L + 1):
            for c in itertools.product(CONTENT_ALPHABET, repeat=n):
                yield bytes([t, n]) + bytes(c)
    payloads = [b'', b'\x00', b'\x01', b'\x00\x01', b'\x00\x01\x05', b'\x01\x00\x05', b'nan', b'inf', b'1', b'1E', b' 1',
                b'1e400', b'+', b'.', b'-0', b'1.5E+2', b'\x02\x00\x00\x01']
    for first in range(256):
        for p in payloads:
            body = bytes([first]) + p
            yield bytes([9, len(body)]) + body
            yield b'\x30' + bytes([len(body) + 2, 9, len(body)]) + body


def magnitudes(tier):
    """inputs whose NUMBERS sit at platform boundaries rather than whose shape is odd: declared lengths around
    2**31, 2**32, 2**63 (sys.maxsize) and 2**64 under every tag kind, long decimal REALs around the float and the
    int<->str conversion limits, huge binary REAL exponents, long INTEGER/OID contents"""
    import sys
    tags = [b'\x04', b'\x24', b'\x30', b'\x31', b'\x03', b'\x02', b'\x09', b'\x0c', b'\xa0', b'\x1f\x81\x00', b'\x05', b'\x06']
    centres = [2 ** 31, 2 ** 32, sys.maxsize + 1, 2 ** 64]
    deltas = range(-13, 3) if tier == 'quick' else range(-20, 6)
    for t in tags:
        for c in centres:
            for d in deltas:
                L = c + d
                n = (L.bit_length() + 7) // 8
                for pad in (0, 1):
                    hdr = t + bytes([0x80 | (n + pad)]) + L.to_bytes(n + pad, 'big')
                    yield hdr + b'ab'
                    yield b'\x30\x80' + hdr + b'\x00\x00'
    def tlv(tag, body):
        n = len(body)
        if n < 128:
            return bytes([tag, n]) + body
        k = (n.bit_length() + 7) // 8
        return bytes([tag, 0x80 | k]) + n.to_bytes(k, 'big') + body
    digits = [b'1' * k + b'0' * z for k in (1, 17, 309) for z in (0, 1, 5, 292, 309, 330)] + [b'1' * 4400, b'1' + b'0' * 4400]
    exps = [b'0', b'400', b'-400', b'+400', b'99999999', b'-99999999', b'1' + b'0' * 30, b'9' * 4400]
    for dg in digits:
        yield tlv(9, b'\x01' + dg)
        yield tlv(9, b'\x01-' + dg)
        yield tlv(9, b'\x02' + dg + b'.' + dg[:20])
        yield tlv(9, b'\x02.' + dg)
        for ex in exps:
            if len(dg) > 400 and len(ex) > 10:
                continue
            yield tlv(9, b'\x03' + dg + b'E' + ex)
            yield tlv(9, b'\x03' + dg[:5] + b'.' + dg + b'e' + ex)
    for first in (0x80, 0x81, 0x82, 0x83, 0x90, 0xa0, 0xb3, 0xc3, 0x8f):
        for eb in (b'\x7f' + b'\xff' * 7, b'\x80' + b'\x00' * 7, b'\x7f' * 3, b'\x80\x00\x00', b'\x7f\xff', b'\x7f' + b'\xff' * 20):
            for mant in (b'\x01', b'\xff' * 9, b'', b'\x00'):
                body = bytes([first]) + (bytes([len(eb)]) if first & 3 == 3 else b'') + eb + mant
                yield tlv(9, body)
                yield tlv(0x30, tlv(9, body))
    # huge scalars inside containers that are then found wrong (excess member, size bound, range): the error
    # message must not try to print them
    huge = [tlv(9, b'\x83\x04\x3b\x9a\xca\x00\x01'), tlv(9, b'\x83\x08\x3f' + b'\xff' * 7 + b'\x01'),
            tlv(9, b'\x03' + b'1E' + b'9' * 12), tlv(2, b'\x7f' * 2048), tlv(2, b'\x80' + b'\x00' * 3000),
            tlv(3, b'\x00' + b'\xff' * 3000), tlv(10, b'\x7f' * 2048), tlv(6, b'\x2b' + b'\xff' * 3000 + b'\x01')]
    # identifiers with thousands of continuation octets, huge OID arcs followed by damage
    for n in (600, 3000):
        lt = b'\x1f' + b'\xff' * n + b'\x01'
        for first in (b'\x1f', b'\x3f', b'\x9f', b'\xbf', b'\xdf'):
            t = first + lt[1:]
            yield t + b'\x00'
            yield t + b'\x01\x05'
            yield t + b'\x80\x00\x00'
            yield tlv(0x30, t + b'\x00')
            yield b'\x30\x80' + t + b'\x01\x05\x00\x00'
        yield tlv(6, b'\x2b' + b'\xff' * n + b'\x01' + b'\x81')
        yield tlv(6, b'\x2b' + b'\xff' * n + b'\x01' + b'\x80\x01')
        yield tlv(6, b'\xff' * n + b'\x01')
        yield tlv(0x30, tlv(6, b'\x2b' + b'\xff' * n + b'\x01' + b'\x81'))
    for h in huge:
        yield h
        yield b'\x30\x80' + h + b'\x02\x01\x01\x00\x00'
        yield tlv(0x30, h + b'\x02\x01\x01')
        yield tlv(0x30, h)
        yield tlv(0x30, h + h + h)
        yield tlv(0x31, h + h)
        yield tlv(0xa0, h)
    for n in (127, 128, 255, 256, 5000):
        yield tlv(2, b'\x7f' * n)
        yield tlv(2, b'\x80' + b'\x00' * n)
        yield tlv(6, b'\x2b' + b'\xff' * n + b'\x01')
        yield tlv(6, b'\x2b' + b'\xff' * n)
        yield tlv(10, b'\xff' * n)
        yield tlv(3, b'\x07' + b'\xff' * n)
        yield tlv(1, b'\x01' * n)
        yield tlv(5, b'\x00' * n)


STRING_TAGS = bytes.fromhex('04 0c 12 13 14 16 17 18 19 1a 1b 1c 1e 07')
TEXTS = [b'', b'a', b'ab', b'\xff', b'a\xff', b'\xc3', b'\xc3\xa9', b'\xe2\x82', b'\x00a', b'\x00\x00\x00a', b'\xd8\x00', b'\x00\x11\x00\x00',
         b'19851106210627.3Z', b'850106210627Z', b'1 2', b'\x80']


def string_forms(tier):
    """every string type x texts that are not valid for every type's character set x every way of sending a string:
    primitive, one/two fragments, fragment that is itself constructed (definite / indefinite), each under a definite
    and an indefinite outer header, bare and inside a SEQUENCE"""
    def tl(tag, body):
        return bytes([tag, len(body)]) + body

    def ind(tag, body):
        return bytes([tag, 0x80]) + body + b'\x00\x00'
    for t in STRING_TAGS:
        for text in TEXTS:
            a, b = text[:len(text) // 2], text[len(text) // 2:]
            frags = [tl(4, text), tl(4, a) + tl(4, b), tl(0x24, tl(4, text)), ind(0x24, tl(4, text)),
                     tl(4, a) + ind(0x24, tl(4, b)), ind(0x24, ind(0x24, tl(4, text))), tl(0x24, tl(0x24, tl(4, a)) + tl(4, b)),
                     tl(t, text), b'']
            forms = [tl(t, text)]
            for f in frags:
                if len(f) < 120:
                    forms.append(tl(t | 0x20, f))
                forms.append(ind(t | 0x20, f))
            for e in forms:
                yield e
                if len(e) < 120:
                    yield tl(0x30, e)
                yield ind(0x30, e + b'\x01\x01\xff')


T_OPEN_SETOF = ('SEQ', (('id', INT, 'R', None), ('blob', ('SETOF', U.I(0, ANY)), 'R', None)))
T_OPEN_ANY = ('SEQ', (('id', INT, 'R', None), ('blob', U.E(1, ANY), 'O', None)))


def _open_specs():
    from pyasn1.type import univ, namedtype, opentype, tag
    ot = opentype.OpenType('id', {1: univ.Integer(), 2: univ.OctetString(), 3: univ.SequenceOf(componentType=univ.Boolean())})
    t0 = tag.Tag(tag.tagClassContext, tag.tagFormatSimple, 0)
    t1 = tag.Tag(tag.tagClassContext, tag.tagFormatSimple, 1)
    B._spec_cache[T_OPEN_SETOF] = univ.Sequence(componentType=namedtype.NamedTypes(
        namedtype.NamedType('id', univ.Integer()),
        namedtype.NamedType('blob', univ.SetOf(componentType=univ.Any().subtype(implicitTag=t0)), openType=ot)))
    B._spec_cache[T_OPEN_ANY] = univ.Sequence(componentType=namedtype.NamedTypes(
        namedtype.NamedType('id', univ.Integer()),
        namedtype.OptionalNamedType('blob', univ.Any().subtype(explicitTag=t1), openType=ot)))


_open_specs()
OPEN_SPECS = [('open-setof', T_OPEN_SETOF), ('open-any', T_OPEN_ANY), ('none', None)]


def open_members(tier):
    """records with an open type field resolved while decoding (decodeOpenTypes): every member content of length
    <= 3 over a small alphabet x governing value {mapped to INTEGER / OCTET STRING / SEQUENCE OF, unmapped} x
    definite / indefinite framing at each level"""
    alpha = bytes.fromhex('00 01 02 04 05 30 80 ff')
    L = 3 if tier == 'quick' else 4
    for n in range(0, L + 1):
        for c in itertools.product(alpha, repeat=n):
            c = bytes(c)
            for gid in (1, 2, 3, 9):
                g = bytes([2, 1, gid])
                m0 = bytes([0x80, len(c)]) + c
                m0c = bytes([0xa0, len(c)]) + c
                for m in (m0, m0c, b'\xa0\x80' + c + b'\x00\x00'):
                    setof = bytes([0x31, len(m)]) + m
                    yield bytes([0x30, len(g) + len(setof)]) + g + setof
                    yield b'\x30\x80' + g + setof + b'\x00\x00'
                    yield b'\x30\x80' + g + b'\x31\x80' + m + b'\x00\x00\x00\x00'
                e1 = bytes([0xa1, len(c)]) + c
                yield bytes([0x30, len(g) + len(e1)]) + g + e1
                yield b'\x30\x80' + g + b'\xa1\x80' + c + b'\x00\x00\x00\x00'


def spec_list(tier, part):
    if tier == 'quick' and part == 'a':
        return SPECS[:5]
    return SPECS


def shard(tier, i, n, seed):
    try:
        return _shard(tier, i, n, seed)
    finally:
        # the scratch file of run_files() (worker processes do not run atexit handlers)
        if _TMP[0] is not None and _TMP[0][0] == __import__('os').getpid():
            try:
                __import__('os').unlink(_TMP[0][1])
            except OSError:
                pass


def _shard(tier, i, n, seed):
    R = Result()
    signal.signal(signal.SIGVTALRM, _alarm)
    # a decoder that starts computing with a declared magnitude (2 ** huge) cannot be interrupted from Python and
    # would take the machine down with it: cap the worker's address space so that it fails with MemoryError instead
    import resource
    resource.setrlimit(resource.RLIMIT_AS, (6 << 30, 6 << 30))
    L = 3 if tier == 'quick' else 4
    specs_a = [(nm, (B.to_spec(T) if T else None), T) for nm, T in spec_list(tier, 'a')]
    specs_b = [(nm, (B.to_spec(T) if T else None), T) for nm, T in spec_list(tier, 'b')]
    idx = -1
    # (a) exhaustive short strings
    for data in alphabet_strings(L):
        idx += 1
        if (idx + seed) % n != i:
            continue
        guarded(R, lambda: run_all(data, 'alphabet', None, specs_a, R, idx), {'data': data, 'origin': 'alphabet'}, {'alphabet'}, idx)
    R.extra['alphabet_strings'] += 0
    # (a2) primitive contents
    specs_p = [(nm, (B.to_spec(T) if T else None), T) for nm, T in SPECS if nm in ('none', 'int', 'bits', 'seqof-real', 'utf8', 'oid', 'any')]
    for data in primitive_contents(tier):
        idx += 1
        if (idx + seed) % n != i:
            continue
        guarded(R, lambda: run_all(data, 'primitive', None, specs_p, R, idx), {'data': data, 'origin': 'primitive'}, {'primitive'}, idx)
    # (a3) boundary magnitudes
    specs_m = [(nm, B.to_spec(T), T) for nm, T in MAGNITUDE_SPECS]
    for data in magnitudes(tier):
        idx += 1
        if (idx + seed) % n != i:
            continue
        guarded(R, lambda: run_all(data, 'magnitude', None, specs_b + specs_m, R, idx), {'data': data, 'origin': 'magnitude'}, {'magnitude'}, idx)
        guarded(R, lambda: run_files(data, specs_b[:3], R, idx), {'data': data, 'origin': 'magnitude', 'as': 'file'}, {'magnitude', 'file'}, idx)
    # (a4) string types x invalid text x fragment nesting
    specs_s = [(nm, (B.to_spec(T) if T else None), T) for nm, T in STRING_SPECS]
    for data in string_forms(tier):
        idx += 1
        if (idx + seed) % n != i:
            continue
        tagnum = [x for x in data[:4] if x & 0x1f in STRING_TAGS and x & 0xc0 == 0]
        own = [s for s in specs_s if s[0] in ('none', 'any') or (tagnum and s[0] == 'tag%02x' % (tagnum[-1] & 0x1f))]
        guarded(R, lambda: run_all(data, 'strings', None, own, R, idx), {'data': data, 'origin': 'strings'}, {'strings'}, idx)
    # (a5) open type fields resolved on decoding
    specs_o = [(nm, (B.to_spec(T) if T else None), T) for nm, T in OPEN_SPECS]
    for data in open_members(tier):
        idx += 1
        if (idx + seed) % n != i:
            continue
        guarded(R, lambda: run_all(data, 'opentype', None, specs_o, R, idx), {'data': data, 'origin': 'opentype'}, {'opentype'}, idx)
    # (b) mutation neighbourhoods
    for name, form, T, e in seeds(tier):
        own = ('own:' + name, B.to_spec(T), T)
        for kind, m in itertools.chain(mutations(e), hollow(e)):
            idx += 1
            if (idx + seed) % n != i:
                continue
            guarded(R, lambda: run_all(m, 'mut:' + kind, (name, form), specs_b + [own], R, idx), {'data': m, 'origin': 'mut:' + kind}, {'mut'}, idx)
    return R


_TMP = [None]


def run_files(data, specs, R, idx):
    """the same input in a real file on disk, opened buffered and unbuffered: file objects set up a buffer of the
    requested size before reading, so declared lengths meet the allocator"""
    import os
    import tempfile
    if _TMP[0] is None or _TMP[0][0] != os.getpid():
        fd, name = tempfile.mkstemp(prefix='c08-')
        os.close(fd)
        _TMP[0] = (os.getpid(), name)
        import atexit
        atexit.register(lambda n=name: os.path.exists(n) and os.unlink(n))
    name = _TMP[0][1]
    with open(name, 'wb') as f:
        f.write(data)
    for specname, spec, T in specs:
        for decname in ('ber', 'der'):
            for buffering in (-1, 0):
                R.evaluations += 1
                R.nontrivial((data, decname, 'file', buffering, specname))
                with open(name, 'rb', buffering=buffering) as f:
                    bad = run_case(f, decname, spec, False)
                if bad:
                    clause, text, site = bad
                    R.violation(clause, {'data': data, 'dec': decname, 'streaming': False, 'spec': specname, 'T': T,
                                         'origin': 'magnitude', 'as': 'file', 'buffering': buffering},
                                text + ' on file holding ' + data[:40].hex(), 'value object + remainder, or PyAsn1Error', site,
                                {'dec:' + decname, 'file', 'buffered' if buffering else 'unbuffered', 'spec:' + specname, 'magnitude'}, idx)
                else:
                    R.features['file'] += 1


def run_all(data, origin, seed_id, specs, R, idx):
    for specname, spec, T in specs:
        for decname in ('ber', 'cer', 'der'):
            for streaming in (False, True):
                R.evaluations += 1
                R.nontrivial((data, decname, streaming, specname))
                bad = run_case(data, decname, spec, streaming)
                if bad:
                    clause, text, site = bad
                    feats = {'dec:' + decname, 'streaming' if streaming else 'oneshot', 'spec:' + specname.split(':')[0],
                             origin.split(':')[0], 'len:%d' % min(len(data), 5)}
                    R.violation(clause, {'data': data, 'dec': decname, 'streaming': streaming, 'spec': specname,
                                         'T': T, 'origin': origin, 'seed': seed_id},
                                text + ' on ' + data[:40].hex(), 'value object + remainder, or PyAsn1Error', site,
                                feats, idx)
                else:
                    R.features[origin.split(':')[0]] += 1
    if idx % 5003 == 0:
        R.sample({'input': data.hex(), 'origin': origin})


def replay(case):
    signal.signal(signal.SIGVTALRM, _alarm)
    T = case['T']
    spec = B.to_spec(T) if T else None
    bad = run_case(case['data'], case['dec'], spec, case['streaming'])
    if bad:
        return [{'clause': bad[0], 'observed': bad[1], 'expected': 'value or PyAsn1Error'}]
    return []
