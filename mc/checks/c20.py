"""C20 - time values convert to and from datetime without changing the instant (exhaustive grids)."""
import datetime
import itertools

from mc.core.runner import guarded, InternalError, Result, pyasn1_site, exc_text
from mc.model import time680 as TM

from pyasn1 import error as pyerr
from pyasn1.type import useful
from pyasn1.codec.cer import encoder as cer_enc
from pyasn1.codec.der import encoder as der_enc
from pyasn1.codec.ber import decoder as ber_dec

PROPERTY = 'C20'
LEVEL = 'exploration'
RULE = ('(a) full grid: dates {1970-01-01, 1999-12-31, 2000-02-29, 2049-12-31; + 1000-01-01, 9999-12-31 for '
        'GeneralizedTime} x times {00:00:00, 12:01:02, 23:59:59} x microseconds {0,1000,5000,50000,120000,999000} '
        '(GeneralizedTime; 0 for UTCTime) x offsets {none, 0, +-1, +-30, +-60, +-90, +-330, +-840 min}: '
        'fromDateTime(dt).asDateTime must be the same instant with the same offset (naive = UTC). '
        '(b) every string of the X.680 grammar over 3 dates: GeneralizedTime {hours | +minutes | +seconds} x fraction '
        '{none, (.|,) x 8 digit patterns of length 1..6} x zone {none, Z, +-hh, +-hhmm}; UTCTime {minutes | +seconds} x '
        '{Z, +-hhmm}: cer/der encode must raise PyAsn1Error or emit a canonical string (Z, dot, no trailing zeros, no '
        'dangling point) denoting the same instant per the independent X.680 reader; non-UTC input must be refused. '
        'Non-trivial = non-zero offset/fraction or non-Z zone; distinct = digest of the datetime / string + codec.')
ASSUMPTIONS = [
    'independent X.680 time reader mc/model/time680.py (fraction applies to the last unit present)',
    'UTCTime years limited to 1970-2049 where both century conventions agree',
    'CPython 3.12 datetime',
]

OFFSETS = [None, 0, 1, -1, 30, -30, 60, -60, 90, -90, 330, -330, 840, -840]
MICROS = [0, 1000, 5000, 50000, 120000, 999000]
TIMES = [(0, 0, 0), (12, 1, 2), (23, 59, 59)]
DATES_UTC = [(1970, 1, 1), (1999, 12, 31), (2000, 2, 29), (2049, 12, 31), (1969, 1, 1), (1969, 12, 31), (2068, 12, 31), (2050, 1, 1)]
DATES_GT = DATES_UTC + [(1000, 1, 1), (9999, 12, 31), (1, 1, 2), (99, 6, 15), (999, 12, 31)]


def predicted_ms_text(cls, dt):
    """recorded finding T2: fromDateTime writes the millisecond count without zero padding"""
    text = ('%.4d' % dt.year + dt.strftime('%m%d%H%M%S')) if cls is useful.GeneralizedTime else dt.strftime('%y%m%d%H%M%S')
    text += '.%d' % (dt.microsecond // 1000)
    off = dt.utcoffset()
    if off:
        secs = int(off.total_seconds())
        text += ('-' if secs < 0 else '+') + '%.2d%.2d' % (abs(secs) // 3600, abs(secs) % 3600 // 60)
    else:
        text += 'Z'
    return text


def predicted_canonicaliser(s):
    """recorded finding T1: the CER/DER time encoder deletes EVERY zero among the first three fraction
    digits (leading and interior ones too) and looks no further than three digits"""
    numbers = list(s)
    if '.' not in numbers:
        return s
    idx = min(numbers.index('.') + 4, len(numbers) - 1)
    while numbers[idx] != '.':
        if numbers[idx] == '0':
            del numbers[idx]
        idx -= 1
    idx += 1
    if idx < len(numbers) and numbers[idx] == 'Z':
        del numbers[idx - 1]
    return ''.join(numbers)


def tz(minutes):
    if minutes is None:
        return None
    return datetime.timezone(datetime.timedelta(minutes=minutes))


def part_a(R):
    idx = 0
    for cls, dates, micros in ((useful.GeneralizedTime, DATES_GT, MICROS), (useful.UTCTime, DATES_UTC, [0])):
        for d, t, us, off in itertools.product(dates, TIMES, micros, OFFSETS):
            idx += 1
            try:
                dt = datetime.datetime(d[0], d[1], d[2], t[0], t[1], t[2], us, tzinfo=tz(off))
                want = TM.instant_of_datetime(dt)
            except (ValueError, OverflowError):
                continue
            if not (TM.Fraction(-62135596800) <= want):
                continue
            R.evaluations += 1
            feats = {'a', cls.__name__}
            if off:
                feats.add('offset:neg' if off < 0 else 'offset:pos')
                if off % 60:
                    feats.add('offset:fractional_hour')
                R.nontrivial((cls.__name__, d, t, us, off))
            elif us:
                R.nontrivial((cls.__name__, d, t, us, off))
            if us:
                feats.add('subsecond')
                if us < 100000:
                    feats.add('subsecond:needs_zero_padding')
            rec = {'part': 'a', 'cls': cls.__name__, 'date': d, 'time': t, 'us': us, 'offset': off}
            try:
                obj = cls.fromDateTime(dt)
                text = str(obj)
                back = obj.asDateTime
            except pyerr.PyAsn1Error as e:
                R.violation('a.error', rec, exc_text(e), 'round trip', pyasn1_site(e), feats, idx)
                continue
            except Exception as e:
                R.violation('a.leak:' + type(e).__name__, rec, exc_text(e), 'round trip', pyasn1_site(e), feats, idx)
                continue
            got = TM.instant_of_datetime(back)
            goff = back.utcoffset()
            goff = None if goff is None else int(goff.total_seconds() // 60)
            woff = off or 0
            if us and text == predicted_ms_text(cls, dt):
                feats = feats | {'kf:T2'}
            if got != want:
                R.violation('a.instant', rec, '%s -> %r -> %s' % (dt.isoformat(), text, back.isoformat()),
                            'the same instant', 'type.useful', feats, idx)
            elif goff != woff:
                R.violation('a.offset', rec, '%s -> %r -> offset %r' % (dt.isoformat(), text, goff),
                            'offset %r' % woff, 'type.useful', feats, idx)
            else:
                for f in feats:
                    R.features[f] += 1
            # the produced text must itself denote the instant per X.680
            try:
                if cls is useful.GeneralizedTime:
                    inst, zoff = TM.read_generalized(text)
                else:
                    # the text carries no century: either reading may be the instant meant
                    cands = []
                    for century in (1900, 2000):
                        try:
                            cands.append(TM.read_utc(text, century))
                        except TM.TimeSyntaxError:
                            pass
                    if not cands:
                        raise TM.TimeSyntaxError(text)
                    inst, zoff = ([c for c in cands if c[0] == want] or cands)[0]
                if inst != want:
                    R.violation('a.text_instant', rec, '%s -> %r denotes another instant' % (dt.isoformat(), text),
                                'text denoting the same instant', 'type.useful', feats, idx)
            except TM.TimeSyntaxError:
                R.violation('a.text_syntax', rec, '%s -> %r is not X.680 syntax' % (dt.isoformat(), text),
                            'valid time string', 'type.useful', feats, idx)
    if idx:
        R.sample({'part': 'a', 'example': str(useful.GeneralizedTime.fromDateTime(datetime.datetime(2000, 2, 29, 12, 1, 2, 120000)))})


FRACS = ['5', '05', '50', '00', '0', '123', '103', '120', '100', '000', '001', '0500', '123456', '100000', '000001', '120030']
ZONES_GT = [None, 'Z', '+02', '-05', '+0000', '+0530', '-0130', '+1400']
ZONES_UT = ['Z', '+0000', '+0530', '-0130', '+1400']
BDATES = [(2000, 2, 29), (1999, 12, 31), (2049, 1, 1)]


def grammar_strings():
    for (Y, Mo, D) in BDATES:
        for hms in ('12', '1201', '120102', '235959', '0000'):
            for mark in (None, '.', ','):
                for frac in ([None] if mark is None else FRACS):
                    for z in ZONES_GT:
                        s = '%04d%02d%02d%s' % (Y, Mo, D, hms)
                        if mark:
                            s += mark + frac
                        if z:
                            s += z
                        yield useful.GeneralizedTime, s
        for hms in ('1201', '120102', '2359', '000000'):
            for z in ZONES_UT:
                yield useful.UTCTime, '%02d%02d%02d%s%s' % (Y % 100, Mo, D, hms, z)


def entry_outcomes(enc, cls, s):
    """[(entry point, ('ok', octets of the time TLV) | ('refused',) | ('leak', name))]: value object; text plus type;
    value object plus type; member of a SEQUENCE given as a mapping; member of a SEQUENCE OF given as a list"""
    from pyasn1.type import univ, namedtype
    seq = univ.Sequence(componentType=namedtype.NamedTypes(namedtype.NamedType('t', cls())))
    sof = univ.SequenceOf(componentType=cls())

    def run(fn, unwrap=0):
        try:
            data = fn()
        except pyerr.PyAsn1Error:
            return ('refused',)
        except Exception as e:
            return ('leak', type(e).__name__)
        if unwrap:
            # strip the container's header (definite: 2 octets; CER: 30 80 ... 00 00)
            data = data[2:-2] if data[1:2] == b'\x80' else data[2:]
        return ('ok', data)
    return [('object', run(lambda: enc(cls(s)))),
            ('text+type', run(lambda: enc(s, asn1Spec=cls()))),
            ('object+type', run(lambda: enc(cls(s), asn1Spec=cls()))),
            ('mapping member', run(lambda: enc({'t': s}, asn1Spec=seq), 1)),
            ('list member', run(lambda: enc([s], asn1Spec=sof), 1))]


def part_b(R):
    idx = 100000
    for cls, s in grammar_strings():
        idx += 1
        gen = cls is useful.GeneralizedTime
        try:
            want, zoff = (TM.read_generalized if gen else TM.read_utc)(s)
        except TM.TimeSyntaxError:
            raise InternalError('grammar generator produced %r which the reader rejects' % s)
        feats = {'b', cls.__name__, 'zone:' + ('local' if zoff is None and not s.endswith('Z') else 'Z' if s.endswith('Z') else 'offset')}
        if ',' in s:
            feats.add('comma')
        if '.' in s or ',' in s:
            frac = s.replace(',', '.').split('.')[1].rstrip('Z+-0123456789'[:0])
            digits = ''.join(ch for ch in s.replace(',', '.').split('.')[1] if ch.isdigit())
            fr = digits[:len(digits)] if s.endswith('Z') or zoff is None else digits[:-len(s.split('+')[-1].split('-')[-1])]
            feats.add('fraction')
            core = s.replace(',', '.').split('.')[1]
            fd = ''
            for ch in core:
                if ch.isdigit():
                    fd += ch
                else:
                    break
            if '0' in fd.strip('0') :
                feats.add('fraction:interior_zero')
            if fd.endswith('0'):
                feats.add('fraction:trailing_zero')
            if fd.startswith('0'):
                feats.add('fraction:leading_zero')
            if set(fd) == {'0'}:
                feats.add('fraction:all_zero')
            if len(fd) > 3:
                feats.add('fraction:long')
        nsec = len(s.split('.')[0].split(',')[0].rstrip('Z').split('+')[0].split('-')[0]) - (8 if gen else 6)
        feats.add('units:%d' % nsec)
        for ename, enc in (('cer', cer_enc.encode), ('der', der_enc.encode)):
            R.evaluations += 1
            R.nontrivial((cls.__name__, s, ename))
            rec = {'part': 'b', 'cls': cls.__name__, 'text': s, 'enc': ename}
            f2 = feats | {'enc:' + ename}
            # every way of handing the value to the encoder gives the same octets (or the same refusal)
            entries = entry_outcomes(enc, cls, s)
            base = entries[0][1]
            for how, oc in entries[1:]:
                R.evaluations += 1
                if oc != base:
                    R.violation('b.entry_point', dict(rec, entry=how), '%s gives %r' % (how, oc), 'as encode(value object): %r' % (base,),
                                ename + '.encoder', f2 | {'entry:' + how}, idx)
            try:
                data = enc(cls(s))
            except pyerr.PyAsn1Error:
                R.features['b.refused'] += 1
                continue
            except Exception as e:
                R.violation('b.leak:' + type(e).__name__, rec, exc_text(e), 'PyAsn1Error or bytes', pyasn1_site(e), f2, idx)
                continue
            if not s.endswith('Z'):
                R.violation('b.non_utc_accepted', rec, '%r encoded as %s' % (s, data.hex()), 'PyAsn1Error',
                            ename + '.encoder', f2, idx)
                continue
            # primitive form expected (short strings): content = data[2:]
            out = data[2:].decode('ascii', 'replace')
            pred = predicted_canonicaliser(s)
            # the recorded defect includes the encoder's length window: what falls outside it is refused, never emitted
            lo, hi = (12, 20) if gen else (10, 14)
            if out == pred and out != s and lo < len(pred) < hi:
                f2 = f2 | {'kf:T1'}
            probs = TM.canonical_problems(out, gen)
            if probs:
                R.violation('b.not_canonical', rec, '%r -> %r: %s' % (s, out, ', '.join(probs)), 'canonical string',
                            ename + '.encoder', f2, idx)
                continue
            try:
                got, goff = (TM.read_generalized if gen else TM.read_utc)(out)
            except TM.TimeSyntaxError:
                R.violation('b.output_syntax', rec, '%r -> %r is not X.680 syntax' % (s, out), 'valid time string',
                            ename + '.encoder', f2, idx)
                continue
            if got != want:
                R.violation('b.instant', rec, '%r -> %r denotes another instant' % (s, out), 'the same instant',
                            ename + '.encoder', f2, idx)
            else:
                for f in f2:
                    R.features[f] += 1
    R.sample({'part': 'b', 'example': '20000229120102.120Z'})


def shard(tier, i, n, seed):
    R = Result()
    if i == 0:
        guarded(R, lambda: part_a(R), {'part': 'a'}, {'a'}, 0)
    if i == (1 % n):
        guarded(R, lambda: part_b(R), {'part': 'b'}, {'b'}, 1)
    return R


MAX_WORKERS = 2


def replay(case):
    return [{'clause': 'see-case', 'observed': repr(case)[:300], 'expected': 're-run bin/check C20'}]
