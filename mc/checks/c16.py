"""C16 - self-describing encodings decode faithfully without a schema (E1)."""
from mc.checks import codec_matrix as CM
from mc.checks import stream_corpus as SC
from mc.core.runner import guarded, Result, pyasn1_site, exc_text
from mc.model import x690 as M
from mc.model import forms as F
from mc.model import universe as U
from mc.bind import pyasn1_bind as B

from pyasn1.type import univ, char, useful, base as pybase
from pyasn1.codec.der import encoder as der_enc
from pyasn1 import error as pyerr

PROPERTY = 'C16'
LEVEL = 'exploration'
RULE = ('E1 exhaustive: every (type, value) of universe slices LEAF, TAGS, REC, OF, CH, NEST whose type uses only '
        'universal tags and EXPLICIT tagging, has no ANY and no SET OF over a CHOICE (incl. empty, single-member and '
        'homogeneous containers); reference DER, BER-indefinite(+chunked) and CER encodings are decoded WITHOUT a '
        'guiding type: result must be an ASN.1 value object, DER re-encoding byte-identical (DER input), and the '
        'in-order scalar leaves must equal the leaves of the reference reading of the same bytes. Non-trivial = '
        'constructed or tagged type; distinct = digest of (bytes, decoder).')
ASSUMPTIONS = [
    'inputs are reference-model encodings; expected leaves come from the independent schema-guided reader walking '
    'the same bytes in wire order',
    'base-10 REAL excluded (model does not emit it); CPython 3.12, PYTHONHASHSEED=0',
]

STR_CLASSES = {}
for _k in M.STR_KINDS:
    STR_CLASSES[B.str_class(_k)] = _k


def eligible(T):
    def bad(t):
        if t[0] == 'TAG' and t[1] == 'I':
            return True
        if t[0] == 'ANY':
            return True
        if t[0] == 'SETOF' and M.base_of(t[1])[0] == 'CHOICE':
            return True
        return False
    return not U.contains(T, bad)


def wire_leaves(T, node, data, out):
    """Scalar leaves of the reference reading of `data` in wire order."""
    T = M.strip_con(T)
    k = T[0]
    if k == 'TAG':
        return wire_leaves(T[4], node.children[0], data, out)
    if k == 'CHOICE':
        for name, alt in T[1]:
            ft = M.first_tags(alt)
            if node.tag() in ft:
                return wire_leaves(alt, node, data, out)
        raise M.ReadError('no alternative')
    if k in ('SEQOF', 'SETOF'):
        for c in node.children:
            wire_leaves(T[1], c, data, out)
        return
    if k == 'SEQ':
        i = 0
        kids = node.children
        for name, ft, opt, dflt in T[1]:
            tags = M.first_tags(ft)
            if i < len(kids) and kids[i].tag() in tags:
                wire_leaves(ft, kids[i], data, out)
                i += 1
        return
    if k == 'SET':
        for c in node.children:
            for name, ft, opt, dflt in T[1]:
                if c.tag() in M.first_tags(ft):
                    wire_leaves(ft, c, data, out)
                    break
        return
    out.append((T, M.Reader(data).value(T, node)))


def obj_leaves(obj, out, depth=0):
    if obj is None:
        raise B.NotAValue((), 'None inside result')
    if not isinstance(obj, pybase.Asn1Item):
        raise B.NotAValue((), 'non-ASN.1 item %r' % type(obj).__name__)
    if not obj.isValue:
        raise B.NotAValue((), 'schema object %s inside result' % type(obj).__name__)
    if isinstance(obj, univ.SequenceOfAndSetOfBase):
        for i in range(len(obj)):
            obj_leaves(obj.getComponentByPosition(i, default=None, instantiate=False), out, depth + 1)
        return
    if isinstance(obj, univ.Choice):
        obj_leaves(obj.getComponent(), out, depth + 1)
        return
    if isinstance(obj, univ.SequenceAndSetBase):
        i = 0
        n = len(obj)
        for i in range(n):
            c = obj.getComponentByPosition(i, default=None, instantiate=False)
            if c is not None:
                obj_leaves(c, out, depth + 1)
        return
    out.append(scalar_of(obj))


def scalar_of(obj):
    cls = type(obj)
    if cls in STR_CLASSES:
        return (('STR', STR_CLASSES[cls]), str(obj))
    if isinstance(obj, univ.Boolean):
        return (('BOOL',), bool(int(obj)))
    if isinstance(obj, univ.Enumerated):
        return (('ENUM',), int(obj))
    if isinstance(obj, univ.Integer):
        return (('INT',), int(obj))
    if isinstance(obj, univ.BitString):
        n = len(obj)
        return (('BITS',), bin(int(obj.asInteger()))[2:].zfill(n) if n else '')
    if isinstance(obj, univ.Null):
        return (('NULL',), None)
    if isinstance(obj, univ.Any):
        return (('ANY',), obj.asOctets())
    if isinstance(obj, univ.OctetString):
        return (('OCTS',), obj.asOctets())
    if isinstance(obj, univ.ObjectIdentifier):
        return (('OID',), tuple(int(a) for a in obj.asTuple()))
    if isinstance(obj, univ.Real):
        return (('REAL',), B._real_abs(obj))
    return (('?', cls.__name__), repr(obj))


def leaves_equal(a, b):
    if len(a) != len(b):
        return False
    for (ta, va), (tb, vb) in zip(a, b):
        # without a schema ENUMERATED is recovered as an integer-like value carrying the ENUMERATED tag:
        # the leaf *values* are what the property compares
        ka = 'INT' if ta[0] == 'ENUM' else ta[0]
        kb = 'INT' if tb[0] == 'ENUM' else tb[0]
        if ka != kb:
            return False
        # T61String / ISO646String are X.680 synonyms of TeletexString / VisibleString: the same type on the wire
        syn = {'T61String': 'TeletexString', 'ISO646String': 'VisibleString'}
        if ta[0] == 'STR' and syn.get(ta[1], ta[1]) != syn.get(tb[1], tb[1]):
            return False
        if not M.values_equal((ka,) if ka != 'STR' else ta, va, vb):
            return False
    return True


def check_case(idx, sl, T, v, R):
    feats0 = CM.case_features(T, v)
    if 'real10' in feats0:
        return
    forms = ['der', 'indef', 'cer'] + (['indef-chunk'] if U.has_string(T) else [])
    seen = set()
    for form in forms:
        data = F.encode(form, T, v)
        if data in seen:
            continue
        seen.add(data)
        want = []
        wire_leaves(T, M.tlv_tree(data), data, want)
        want = [((t[0],) if t[0] not in ('STR',) else t, x) for t, x in want]
        for decname in F.ACCEPTS[form]:
            if decname != 'ber' and form != decname:
                continue
            R.evaluations += 1
            R.nontrivial((data, decname))
            feats = feats0 | {'form:' + form, 'dec:' + decname}
            if M.base_of(T)[0] in ('SEQ', 'SET', 'SEQOF', 'SETOF') and not v:
                feats.add('empty_container_top')
            rec = {'slice': sl, 'T': T, 'v': v, 'form': form, 'dec': decname, 'bytes': data}
            try:
                r = CM.DECODERS[decname](data)
            except Exception as e:
                R.violation('decode.error', rec, exc_text(e) + ' on ' + data[:40].hex(), 'a value object',
                            pyasn1_site(e), feats, idx)
                continue
            obj, rest = r
            if obj is None:
                R.violation('none_value', rec, 'decode(%s) returned None' % data[:40].hex(), 'a value object',
                            decname + '.decoder', feats, idx)
                continue
            got = []
            try:
                obj_leaves(obj, got)
            except B.NotAValue as e:
                R.violation('not_a_value', rec, '%s in result of decode(%s)' % (e.why, data[:40].hex()), 'a value object',
                            decname + '.decoder', feats, idx)
                continue
            except Exception as e:
                R.violation('walk.error', rec, exc_text(e), 'readable result', pyasn1_site(e), feats, idx)
                continue
            if rest != b'':
                R.violation('remainder', rec, 'remainder %s' % rest.hex(), 'empty', decname + '.decoder', feats, idx)
                continue
            if not leaves_equal(got, want):
                R.violation('leaves', rec, '%r from %s' % (got, data[:40].hex()), repr(want), decname + '.decoder', feats, idx)
                continue
            if form == 'der':
                try:
                    again = der_enc.encode(obj)
                except Exception as e:
                    R.violation('reencode.error', rec, exc_text(e) + ' re-encoding result of ' + data[:40].hex(),
                                'byte-identical DER', pyasn1_site(e), feats, idx)
                    continue
                if again != data:
                    from mc.model import emu
                    R.violation('reencode.bytes', rec, again[:60].hex(), data[:60].hex(), 'der.encoder',
                                # the re-encoded object has no schema: OPTIONAL/DEFAULT-related findings cannot apply
                                feats | emu.classify(T, v, 'der', again, ALL=('K1', 'K4')), idx)
                    continue
            for f in feats:
                R.features[f] += 1


def cases(tier):
    idx = -1
    for sl in ('LEAF', 'TAGS', 'REC', 'OF', 'CH', 'NEST'):
        for T, v in U.SLICES[sl](tier):
            if not eligible(T):
                continue
            idx += 1
            yield idx, sl, T, v


def shard(tier, i, n, seed):
    R = Result()
    for idx, sl, T, v in cases(tier):
        if (idx + seed) % n != i:
            continue
        def one():
            try:
                check_case(idx, sl, T, v, R)
            except M.ModelError:
                R.features['model_skipped'] += 1
        guarded(R, one, {'slice': sl, 'T': T, 'v': v}, CM.type_features(T), idx, cpu_limit=180)
        R.features['slice:' + sl] += 1
        if idx % 2003 == seed % 2003:
            R.sample({'T': M.show_type(T), 'v': v})
    return R


def replay(case):
    R = Result()
    check_case(0, case.get('slice', '?'), case['T'], case['v'], R)
    return R.violations
