"""C14 - constraints mean what set theory says and cannot be bypassed.

Exhaustive enumeration of constraint-expression trees x candidate values, of value-producing
operations on constrained scalars, of derivation chains, and of constrained constructed values.
"""
import itertools

from mc.core.runner import guarded, Result, pyasn1_site, exc_text
from mc.model import constraints as C

from pyasn1 import error as pyerr
from pyasn1.type import univ, char, namedtype, constraint, tag, opentype
from pyasn1.codec.native import decoder as nat_dec
from pyasn1.codec.ber import encoder as ber_enc, decoder as ber_dec
from pyasn1.codec.cer import encoder as cer_enc
from pyasn1.codec.der import encoder as der_enc

PROPERTY = 'C14'
LEVEL = 'exploration'
RULE = ('(a) every constraint expression tree of depth <= 3 (quick; one leaf-only operand per node at depth 3) / 4 '
        '(thorough) over SingleValue, ValueRange, ValueSize, PermittedAlphabet, ContainedSubtype, WithComponents '
        '(ComponentPresent/Absent) combined by Intersection, Union and Exclusion (1 to 3 operands each), in three '
        'value domains (integers [-3,5]; strings over {a,b,c,d} of length <= 3; presence maps over 2 components), '
        'evaluated on EVERY candidate both as a bare constraint object and through a constrained type constructor; '
        '(b) every value-producing public operation of Integer and PrintableString/OctetString constrained by every '
        'depth <= 2 expression on every admitted operand x every second operand; (c) derivation chains of length <= 3 '
        'with/without an explicit tag: subset, isSuperTypeOf, assignment into SEQUENCE field and SEQUENCE OF; '
        '(d) SEQUENCE OF/SET OF under size constraints and SEQUENCE/SET under WITH COMPONENTS given to each encoder. '
        '(e) BIT STRING under every depth <= 2 (thorough 3) expression over size constraints: construction of every bit string of '
        'length <= 4 and every value-producing operation (slice, +, *, <<, >>, clone/subtype with str/tuple/object, nested '
        'constructor, BER decode of primitive and chunked encodings) on every admitted operand, the operand validated '
        'immediately before the operation; REAL under range / single-value expressions: construction of 7 candidates. '
        'Non-trivial = expression depth >= 2 or a boundary candidate; distinct = digest of (expression, candidate / '
        'operation).')
ASSUMPTIONS = [
    'reference evaluator mc/model/constraints.py (set-theoretic denotation)',
    'ConstraintsExclusion(*constraints) with several operands excludes every operand (complement of their union), the '
    'reading under which the documented sentence holds for each operand; zero-operand constraints are not generated',
    'operations whose failure is a Python-level arithmetic error (division by zero, negative shift) are excluded',
    'CPython 3.12, PYTHONHASHSEED=0',
]

INT_LEAVES = [('SV', 0), ('SV', 1, 3), ('SV', -1), ('VR', -1, 1), ('VR', 0, 3), ('VR', 2, 2), ('VR', -3, -1),
              ('CS', ('VR', 0, 1)), ('SV', 5), ('VR', 3, 5)]
INT_CANDS = list(range(-3, 6))
STR_LEAVES = [('SV', 'a'), ('SV', 'ab', 'c'), ('SV', ''), ('SZ', 0, 1), ('SZ', 2, 3), ('SZ', 1, 1),
              ('PA', 'a', 'b'), ('PA', 'c'), ('PA', 'a', 'b', 'c'), ('CS', ('SZ', 1, 2))]
STR_CANDS = [''.join(t) for n in range(0, 4) for t in itertools.product('abcd', repeat=n)]
WC_LEAVES = [('WC', ('x', 'P')), ('WC', ('x', 'A')), ('WC', ('y', 'P')), ('WC', ('y', 'A')),
             ('WC', ('x', 'P'), ('y', 'A')), ('WC', ('x', 'P'), ('y', 'P'))]
WC_CANDS = [{}, {'x': 1}, {'y': 2}, {'x': 1, 'y': 2}]


def depth(cd):
    if cd[0] in ('AND', 'OR', 'NOT', 'CS'):
        return 1 + max(depth(c) for c in cd[1:])
    return 1


def trees(leaves, maxdepth, linear_top=True, not_pairs_upto=3):
    """All expression trees up to maxdepth; at the top level (maxdepth) only 'linear' nodes
    (one operand is a leaf) when linear_top.  Two-operand exclusions are built at levels <= not_pairs_upto."""
    level = {1: list(leaves)}
    for d in range(2, maxdepth + 1):
        prev_all = [t for k in range(1, d) for t in level[k]]
        prev_top = level[d - 1]
        out = []
        for t in prev_top:
            out.append(('NOT', t))
            out.append(('OR', t))
            out.append(('AND', t))
        if d == maxdepth and linear_top and d > 2:
            pairs = [(a, b) for a in leaves for b in prev_top]
        else:
            pairs = [(a, b) for a in prev_all for b in prev_top] + \
                    [(b, a) for a in [t for k in range(1, d - 1) for t in level[k]] for b in prev_top]
        for a, b in pairs:
            out.append(('AND', a, b))
            out.append(('OR', a, b))
            if d <= not_pairs_upto:
                out.append(('NOT', a, b))
        if d == 2:
            for a, b, c in itertools.combinations(leaves[:5], 3):
                out.append(('AND', a, b, c))
                out.append(('OR', a, b, c))
                out.append(('NOT', a, b, c))
        level[d] = out
    for d in range(1, maxdepth + 1):
        for t in level[d]:
            yield t


def raises_constraint(fn):
    """-> (admitted?, leak exception or None)"""
    try:
        fn()
    except pyerr.ValueConstraintError:
        return False, None
    except pyerr.PyAsn1Error as e:
        return False, None
    except Exception as e:
        return None, e
    return True, None


# --------------------------------------------------------------------------- (a)

def part_a(tier, i, n, seed, R):
    idx = -1
    if tier == 'quick':
        plan = (('int', INT_LEAVES, INT_CANDS, 3), ('str', STR_LEAVES, STR_CANDS, 3), ('wc', WC_LEAVES, WC_CANDS, 3))
    else:
        # depth 4 for integers in full; for strings depth 4 over 5 leaves and candidates of length <= 2
        plan = (('int', INT_LEAVES, INT_CANDS, 4), ('str', STR_LEAVES, STR_CANDS, 3),
                ('str', STR_LEAVES[:2] + STR_LEAVES[3:4] + STR_LEAVES[6:8], [s for s in STR_CANDS if len(s) <= 2], 4),
                ('wc', WC_LEAVES, WC_CANDS, 3))
    makers = {'int': lambda c: univ.Integer().subtype(subtypeSpec=c),
              'str': lambda c: char.PrintableString().subtype(subtypeSpec=c), 'wc': None}
    for dom, leaves, cands, md in plan:
        mk = makers[dom]
        for cd in trees(leaves, md, not_pairs_upto=3 if md <= 3 else 2):
            idx += 1
            if (idx + seed) % n != i:
                continue
            try:
                pc = C.to_pyasn1(cd)
            except Exception as e:
                R.violation('a.construct', {'dom': dom, 'expr': cd}, exc_text(e), 'constraint object can be built',
                            pyasn1_site(e), {'dom:' + dom}, idx)
                continue
            typ = mk(pc) if mk else None
            dp = depth(cd)
            for v in cands:
                R.evaluations += 1
                if dp >= 2:
                    R.nontrivial((cd, repr(v)))
                want = C.admits_raw(cd, v)
                got, leak = raises_constraint(lambda: pc(v))
                feats = {'dom:' + dom, 'depth:%d' % dp, 'top:' + cd[0]} | ops_in(cd)
                if leak is not None:
                    R.violation('a.leak:' + type(leak).__name__, {'dom': dom, 'expr': cd, 'value': v}, exc_text(leak),
                                'admit or ValueConstraintError', pyasn1_site(leak), feats, idx)
                elif got != want:
                    R.violation('a.denotation', {'dom': dom, 'expr': cd, 'value': v},
                                '%s %s %r' % (C.show(cd), 'admits' if got else 'rejects', v),
                                'admits' if want else 'rejects', 'type.constraint', feats, idx)
                else:
                    R.features['a.' + dom] += 1
                if typ is not None:
                    R.evaluations += 1
                    got2, leak2 = raises_constraint(lambda: typ.clone(v))
                    if leak2 is not None:
                        R.violation('a.type.leak:' + type(leak2).__name__, {'dom': dom, 'expr': cd, 'value': v, 'via': 'type'},
                                    exc_text(leak2), 'admit or ValueConstraintError', pyasn1_site(leak2), feats, idx)
                    elif got2 != want:
                        R.violation('a.type.denotation', {'dom': dom, 'expr': cd, 'value': v, 'via': 'type'},
                                    'constructor %s %r under %s' % ('accepts' if got2 else 'rejects', v, C.show(cd)),
                                    'accepts' if want else 'rejects', 'type.base', feats, idx)
            if idx % 701 == 0:
                R.sample({'domain': dom, 'expression': C.show(cd), 'admitted': [v for v in cands if C.admits_raw(cd, v)][:12]})
    return idx


def ops_in(cd):
    out = set()

    def walk(c):
        if c[0] in ('AND', 'OR', 'NOT', 'CS'):
            out.add('has:' + c[0])
            for x in c[1:]:
                walk(x)
        else:
            out.add('has:' + c[0])
    walk(cd)
    return out


# --------------------------------------------------------------------------- (b)

INT_OPS = [
    ('add', lambda a, b: a + b), ('radd', lambda a, b: b + a), ('sub', lambda a, b: a - b), ('rsub', lambda a, b: b - a),
    ('mul', lambda a, b: a * b), ('rmul', lambda a, b: b * a),
    ('floordiv', lambda a, b: a // b), ('mod', lambda a, b: a % b), ('pow', lambda a, b: a ** b),
    ('lshift', lambda a, b: a << b), ('rshift', lambda a, b: a >> b),
    ('and', lambda a, b: a & b), ('or', lambda a, b: a | b), ('xor', lambda a, b: a ^ b),
    ('rand', lambda a, b: b & a), ('ror', lambda a, b: b | a), ('rxor', lambda a, b: b ^ a),
    ('neg', lambda a, b: -a), ('pos', lambda a, b: +a), ('invert', lambda a, b: ~a), ('abs', lambda a, b: abs(a)),
    ('clone', lambda a, b: a.clone(b)), ('subtype', lambda a, b: a.subtype(b)),
    # the same with a value OBJECT of the unconstrained type / of a wider constrained type as initializer
    ('clone_obj', lambda a, b: a.clone(univ.Integer(b))), ('subtype_obj', lambda a, b: a.subtype(univ.Integer(b))),
    ('clone_wide', lambda a, b: a.clone(WIDE_INT.clone(b))),
    ('ctor_obj', lambda a, b: univ.Integer(univ.Integer(b), subtypeSpec=a.subtypeSpec)),
    ('subtype_more', lambda a, b: univ.Integer(b).subtype(subtypeSpec=a.subtypeSpec)),
    ('divmod0', lambda a, b: divmod(a, b)),
    ('native_decode', lambda a, b: nat_dec.decode(b, asn1Spec=a)),
]
UNARY = {'neg', 'pos', 'invert', 'abs'}
WIDE_INT = univ.Integer().subtype(subtypeSpec=constraint.ValueRangeConstraint(-100, 100))


def part_b(tier, i, n, seed, R, idx0):
    idx = idx0
    exprs = list(trees(INT_LEAVES, 2))
    for cd in exprs:
        idx += 1
        if (idx + seed) % n != i:
            continue
        typ = univ.Integer().subtype(subtypeSpec=C.to_pyasn1(cd))
        for a in INT_CANDS:
            if not C.admits_raw(cd, a):
                continue
            try:
                va = typ.clone(a)
            except pyerr.PyAsn1Error:
                continue          # (a) reports denotation errors
            for name, op in INT_OPS:
                for b in ([0] if name in UNARY else INT_CANDS):
                    if name in ('floordiv', 'mod', 'divmod0') and b == 0:
                        continue
                    if name in ('lshift', 'rshift', 'pow') and b < 0:
                        continue
                    R.evaluations += 1
                    R.nontrivial((cd, name, a, b))
                    feats = {'b.int', 'op:' + name} | ops_in(cd)
                    rec = {'part': 'b', 'expr': cd, 'op': name, 'a': a, 'b': b}
                    try:
                        r = op(va, b)
                    except pyerr.PyAsn1Error:
                        R.features['b.refused'] += 1
                        continue
                    except Exception as e:
                        R.features['b.other_exception:' + type(e).__name__] += 1   # no value produced
                        continue
                    if isinstance(r, univ.Integer):
                        try:
                            iv = int(r)
                        except Exception as e:
                            R.violation('b.result_unreadable', rec, exc_text(e), 'an Integer value', 'type.univ', feats, idx)
                            continue
                        if not C.admits_raw(cd, iv):
                            R.violation('b.bypass', rec, '%s(%d,%d) -> Integer(%d) violating %s' % (name, a, b, iv, C.show(cd)),
                                        'ValueConstraintError or an admitted value', 'type.univ', feats, idx)
                        else:
                            R.features['b.ok'] += 1
    # strings
    sexprs = list(trees(STR_LEAVES, 2))
    cands = [s for s in STR_CANDS if len(s) <= 2]
    for cd in sexprs:
        idx += 1
        if (idx + seed) % n != i:
            continue
        for cls in (char.PrintableString, univ.OctetString):
            cdx = cd if cls is char.PrintableString else to_bytes_expr(cd)
            if cdx is None:
                continue
            try:
                typ = cls().subtype(subtypeSpec=C.to_pyasn1(cdx))
            except Exception:
                continue
            for a in STR_CANDS:
                av = a if cls is char.PrintableString else a.encode()
                if not C.admits_raw(cdx, av):
                    continue
                try:
                    va = typ.clone(av)
                except pyerr.PyAsn1Error:
                    continue
                ops = []
                for s, e in itertools.product(range(0, 4), repeat=2):
                    ops.append(('slice[%d:%d]' % (s, e), (lambda s=s, e=e: va[s:e])))
                for b in cands:
                    bv = b if cls is char.PrintableString else b.encode()
                    ops.append(('add', (lambda bv=bv: va + bv)))
                    ops.append(('radd', (lambda bv=bv: bv + va)))
                    ops.append(('clone', (lambda bv=bv: va.clone(bv))))
                    ops.append(('subtype', (lambda bv=bv: va.subtype(bv))))
                    ops.append(('clone_obj', (lambda bv=bv: va.clone(cls(bv)))))
                    ops.append(('subtype_obj', (lambda bv=bv: va.subtype(cls(bv)))))
                    ops.append(('ctor_obj', (lambda bv=bv: cls(cls(bv), subtypeSpec=va.subtypeSpec))))
                    ops.append(('native_decode', (lambda bv=bv: nat_dec.decode(bv, asn1Spec=va))))
                for k in (0, 1, 2, 3):
                    ops.append(('mul', (lambda k=k: va * k)))
                    ops.append(('rmul', (lambda k=k: k * va)))
                for name, fn in ops:
                    R.evaluations += 1
                    feats = {'b.str', 'cls:' + cls.__name__, 'op:' + name.split('[')[0]} | ops_in(cd)
                    rec = {'part': 'b', 'cls': cls.__name__, 'expr': cdx, 'op': name, 'a': av}
                    try:
                        r = fn()
                    except pyerr.PyAsn1Error:
                        R.features['b.refused'] += 1
                        continue
                    except Exception as e:
                        R.features['b.other_exception:' + type(e).__name__] += 1   # no value produced
                        continue
                    if isinstance(r, cls):
                        rv = str(r) if cls is char.PrintableString else r.asOctets()
                        R.nontrivial((cdx, cls.__name__, name, av, rv))
                        if not C.admits_raw(cdx, rv):
                            R.violation('b.bypass', rec, '%s on %r -> %r violating %s' % (name, av, rv, C.show(cdx)),
                                        'ValueConstraintError or an admitted value', 'type.univ', feats, idx)
                        else:
                            R.features['b.ok'] += 1
    # decoding an encoding of each candidate under a constrained type
    for cd in exprs:
        idx += 1
        if (idx + seed) % n != i:
            continue
        typ = univ.Integer().subtype(subtypeSpec=C.to_pyasn1(cd))
        for v in INT_CANDS:
            R.evaluations += 1
            data = ber_enc.encode(univ.Integer(v))
            feats = {'b.decode'} | ops_in(cd)
            rec = {'part': 'b', 'expr': cd, 'op': 'decode', 'a': v}
            try:
                r, rest = ber_dec.decode(data, asn1Spec=typ)
            except pyerr.PyAsn1Error:
                R.features['b.refused'] += 1
                if C.admits_raw(cd, v):
                    R.violation('b.decode_refuses_admitted', rec, 'decode refuses %d under %s' % (v, C.show(cd)),
                                'accepted', 'ber.decoder', feats, idx)
                continue
            except Exception as e:
                R.violation('b.leak:' + type(e).__name__, rec, exc_text(e), 'value or PyAsn1Error', pyasn1_site(e), feats, idx)
                continue
            if not C.admits_raw(cd, int(r)):
                R.violation('b.bypass', rec, 'decode yields Integer(%d) violating %s' % (int(r), C.show(cd)),
                            'PyAsn1Error', 'ber.decoder', feats, idx)
            else:
                R.features['b.ok'] += 1
    return idx


def to_bytes_expr(cd):
    k = cd[0]
    if k == 'SV':
        return ('SV',) + tuple(x.encode() for x in cd[1:])
    if k == 'PA':
        return ('PA',) + tuple(ord(x) for x in cd[1:])
    if k == 'SZ':
        return cd
    if k in ('AND', 'OR', 'NOT', 'CS'):
        subs = [to_bytes_expr(c) for c in cd[1:]]
        if any(s is None for s in subs):
            return None
        return (k,) + tuple(subs)
    return None


# --------------------------------------------------------------------------- (c)

def part_c(tier, i, n, seed, R, idx0):
    idx = idx0
    # incl. constraints of different kinds spelled with the same arguments (VR(0,3) / SV(0,3), VR(1,2) / SV(1,2))
    chain_leaves = [('VR', -2, 4), ('VR', 0, 3), ('SV', 1, 2, 3), ('VR', 1, 2), ('SV', 2), ('SV', 0, 3), ('SV', 1, 2)]
    maxlen = 3
    # the root type declares its constraint the documented way, as a class attribute holding any constraint object
    roots = [None, ('OR', ('VR', -2, 0), ('VR', 2, 4)), ('NOT', ('SV', 1)), ('VR', -2, 4), ('AND', ('VR', -3, 3))]
    root_types = []
    for rcd in roots:
        if rcd is None:
            root_types.append(univ.Integer)
        else:
            root_types.append(type('Root', (univ.Integer,), {'subtypeSpec': C.to_pyasn1(rcd)}))
    for L, ri in [(L, ri) for L in range(1, maxlen + 1) for ri in range(len(roots))]:
        if ri and L == maxlen:
            continue
        rcd = roots[ri]
        rpre = (rcd,) if rcd is not None else ()
        for chain0 in itertools.product(chain_leaves, repeat=L):
            for tagged_at in [None] + list(range(L)):
                idx += 1
                if (idx + seed) % n != i:
                    continue
                types = [root_types[ri]()]
                chain = chain0
                try:
                    for k, cd in enumerate(chain):
                        kw = {'subtypeSpec': C.to_pyasn1(cd)}
                        if tagged_at == k:
                            kw['explicitTag'] = tag.Tag(tag.tagClassContext, tag.tagFormatSimple, 3)
                        types.append(types[-1].subtype(**kw))
                except Exception as e:
                    R.violation('c.derive', {'part': 'c', 'chain': chain, 'tagged_at': tagged_at}, exc_text(e),
                                'derivation succeeds', pyasn1_site(e), {'c'}, idx)
                    continue
                feats = {'c', 'len:%d' % L, 'tagged' if tagged_at is not None else 'untagged',
                         'root:' + (rcd[0] if rcd else 'none')}
                rec = {'part': 'c', 'root': rcd, 'chain': chain, 'tagged_at': tagged_at}
                for lvl in range(1, len(types)):
                    child, parent = types[lvl], types[lvl - 1]
                    eff_child = ('AND',) + rpre + tuple(chain[:lvl])
                    R.evaluations += 1
                    R.nontrivial((rcd, chain, tagged_at, lvl))
                    # subset on candidates (real objects)
                    for v in INT_CANDS:
                        okc, _ = raises_constraint(lambda: child.clone(v))
                        okp, _ = raises_constraint(lambda: parent.clone(v))
                        want = C.admits_raw(eff_child, v)
                        if okc != want:
                            R.violation('c.child_denotation', dict(rec, level=lvl, value=v),
                                        'child %s %d' % ('accepts' if okc else 'rejects', v),
                                        'accepts' if want else 'rejects', 'type.base', feats, idx)
                        if okc and not okp:
                            R.violation('c.not_subset', dict(rec, level=lvl, value=v), 'child admits %d, parent rejects' % v,
                                        'child subset of parent', 'type.base', feats, idx)
                    # recognised as subtype
                    f2 = feats | {'level:%d' % lvl, 'parent_constrained' if (lvl > 1 or rpre) else 'parent_unconstrained'}
                    try:
                        sup = parent.isSuperTypeOf(child)
                    except Exception as e:
                        R.violation('c.issupertype.leak', dict(rec, level=lvl), exc_text(e), 'True', pyasn1_site(e), f2, idx)
                        sup = None
                    if sup is False:
                        R.violation('c.issupertype', dict(rec, level=lvl), 'parent.isSuperTypeOf(child) is False',
                                    'True', 'type.constraint', f2, idx)
                    # assignment where the parent is expected
                    admitted = [v for v in INT_CANDS if C.admits_raw(eff_child, v)]
                    if admitted:
                        val = child.clone(admitted[0])
                        seq = univ.Sequence(componentType=namedtype.NamedTypes(namedtype.NamedType('f', parent)))
                        try:
                            seq['f'] = val
                        except (pyerr.PyAsn1Error, KeyError, IndexError) as e:
                            R.violation('c.assign_field', dict(rec, level=lvl), exc_text(e), 'assignment accepted',
                                        'type.univ', f2, idx)
                        sof = univ.SequenceOf(componentType=parent)
                        try:
                            sof.append(val)
                        except (pyerr.PyAsn1Error, KeyError, IndexError) as e:
                            R.violation('c.assign_member', dict(rec, level=lvl), exc_text(e), 'append accepted',
                                        'type.univ', f2, idx)
                    R.features['c.levels'] += 1
                # the other direction: a value of an ancestor type that a descendant's constraints reject must not
                # get into a container declared with the descendant type (checked after the WHOLE chain was derived)
                for anc in range(0, len(types)):
                    for des in range(anc + 1, len(types)):
                        eff_anc = ('AND',) + rpre + tuple(chain[:anc]) if (anc or rpre) else None
                        eff_des = ('AND',) + rpre + tuple(chain[:des])
                        for v in INT_CANDS:
                            if (eff_anc is not None and not C.admits_raw(eff_anc, v)) or C.admits_raw(eff_des, v):
                                continue
                            try:
                                val = types[anc].clone(v)
                            except pyerr.PyAsn1Error:
                                continue
                            R.evaluations += 1
                            R.nontrivial((rcd, chain, tagged_at, 'neg', anc, des, v))
                            f3 = feats | {'negative_direction', 'anc:%d' % anc, 'des:%d' % des}
                            for kind in ('field', 'field_in_open_record', 'member'):
                                if kind == 'field':
                                    box = univ.Sequence(componentType=namedtype.NamedTypes(namedtype.NamedType('f', types[des])))
                                    put = lambda: box.setComponentByName('f', val)
                                    get = lambda: box.getComponentByName('f', default=None, instantiate=False)
                                elif kind == 'field_in_open_record':
                                    # the same field in a record that also has an open type field elsewhere
                                    box = univ.Set(componentType=namedtype.NamedTypes(
                                        namedtype.NamedType('id', univ.Integer().subtype(implicitTag=tag.Tag(tag.tagClassContext, tag.tagFormatSimple, 7))),
                                        namedtype.NamedType('f', types[des]),
                                        namedtype.NamedType('blob', univ.Any().subtype(implicitTag=tag.Tag(tag.tagClassContext, tag.tagFormatSimple, 8)),
                                                            openType=opentype.OpenType('id', {1: univ.Integer()}))))
                                    put = lambda: box.__setitem__('f', val)
                                    get = lambda: box.getComponentByName('f', default=None, instantiate=False)
                                else:
                                    box = univ.SequenceOf(componentType=types[des])
                                    put = lambda: box.append(val)
                                    get = lambda: box.getComponentByPosition(0, default=None, instantiate=False)
                                try:
                                    put()
                                except (pyerr.PyAsn1Error, KeyError, IndexError):
                                    R.features['c.neg_refused'] += 1
                                    continue
                                stored = get()
                                if stored is not None and not C.admits_raw(eff_des, int(stored)):
                                    R.violation('c.bypass_assign', dict(rec, ancestor=anc, descendant=des, value=v, into=kind),
                                                'value %d of the level-%d type accepted as %s of a container declared with the '
                                                'level-%d type whose constraint %s rejects it' % (v, anc, kind, des, C.show(eff_des)),
                                                'refused', 'type.univ', f3, idx)
    return idx


# --------------------------------------------------------------------------- (d)

def part_d(tier, i, n, seed, R, idx0):
    idx = idx0
    encs = (('ber', ber_enc.encode), ('cer', cer_enc.encode), ('der', der_enc.encode))
    sizes = [('SZ', 0, 0), ('SZ', 1, 2), ('SZ', 2, 2), ('SZ', 0, 3), ('AND', ('SZ', 1, 3), ('SZ', 2, 4)),
             ('OR', ('SZ', 0, 0), ('SZ', 3, 3))]
    for cls in (univ.SequenceOf, univ.SetOf):
        for cd in sizes:
            for how in ('subtypeSpec', 'sizeSpec', 'subtypeSpec/untyped'):
                for nmem in range(0, 5):
                    idx += 1
                    if (idx + seed) % n != i:
                        continue
                    want = C.admits_raw(cd, list(range(nmem)))
                    for ename, enc in encs:
                        # a fresh object per encoder call: effects of earlier calls are C12's subject
                        if how.endswith('/untyped'):
                            # a container that does not declare its member type
                            obj = cls(subtypeSpec=C.to_pyasn1(cd))
                        else:
                            obj = cls(componentType=univ.Integer(), **{how: C.to_pyasn1(cd)})
                        obj.clear()
                        for k in range(nmem):
                            obj.append(univ.Integer(k))
                        R.evaluations += 1
                        R.nontrivial((cls.__name__, cd, how, nmem, ename))
                        feats = {'d.size', 'enc:' + ename, 'via:' + how, cls.__name__}
                        rec = {'part': 'd', 'cls': cls.__name__, 'expr': cd, 'via': how, 'members': nmem, 'enc': ename}
                        try:
                            enc(obj)
                            ok = True
                        except pyerr.PyAsn1Error:
                            ok = False
                        except Exception as e:
                            R.violation('d.leak:' + type(e).__name__, rec, exc_text(e), 'PyAsn1Error or bytes', pyasn1_site(e), feats, idx)
                            continue
                        if ok and not want:
                            R.violation('d.encoded_invalid', rec, '%d members encoded under %s' % (nmem, C.show(cd)),
                                        'PyAsn1Error', ename + '.encoder', feats, idx)
                        elif not ok and want:
                            R.violation('d.refused_valid', rec, '%d members refused under %s' % (nmem, C.show(cd)),
                                        'bytes', ename + '.encoder', feats, idx)
                        else:
                            R.features['d.ok'] += 1
    for cls in (univ.Sequence, univ.Set):
        for cd in trees(WC_LEAVES, 2):
            for present in WC_CANDS:
                idx += 1
                if (idx + seed) % n != i:
                    continue
                want = C.admits_raw(cd, present)
                for ename, enc in encs:
                    obj = cls(componentType=namedtype.NamedTypes(
                        namedtype.OptionalNamedType('x', univ.Integer()),
                        namedtype.OptionalNamedType('y', univ.OctetString())), subtypeSpec=C.to_pyasn1(cd))
                    obj.clear()
                    if 'x' in present:
                        obj['x'] = 1
                    if 'y' in present:
                        obj['y'] = b'q'
                    R.evaluations += 1
                    R.nontrivial((cls.__name__, cd, tuple(sorted(present)), ename))
                    feats = {'d.wc', 'enc:' + ename, cls.__name__} | ops_in(cd)
                    rec = {'part': 'd', 'cls': cls.__name__, 'expr': cd, 'present': sorted(present), 'enc': ename}
                    try:
                        enc(obj)
                        ok = True
                    except pyerr.PyAsn1Error:
                        ok = False
                    except Exception as e:
                        R.violation('d.leak:' + type(e).__name__, rec, exc_text(e), 'PyAsn1Error or bytes', pyasn1_site(e), feats, idx)
                        continue
                    if ok and not want:
                        R.violation('d.encoded_invalid', rec, 'components %s encoded under %s' % (sorted(present), C.show(cd)),
                                    'PyAsn1Error', ename + '.encoder', feats, idx)
                    elif not ok and want:
                        R.violation('d.refused_valid', rec, 'components %s refused under %s' % (sorted(present), C.show(cd)),
                                    'bytes', ename + '.encoder', feats, idx)
                    else:
                        R.features['d.ok'] += 1
    return idx


# --------------------------------------------------------------------------- (e)

BIT_LEAVES = [('SZ', 0, 1), ('SZ', 2, 3), ('SZ', 1, 1), ('SZ', 3, 3), ('SZ', 0, 0), ('CS', ('SZ', 1, 2))]
BIT_CANDS = [''.join(t) for k in range(0, 5) for t in itertools.product('01', repeat=k)]
REAL_LEAVES = [('VR', -1, 1), ('VR', 0.5, 2.5), ('SV', 0.5), ('SV', 0, 2)]
REAL_CANDS = [-1.5, -1, 0, 0.5, 1, 2.5, 3]


def bits_of(obj):
    n = len(obj)
    return format(obj.asInteger(), '0%db' % n) if n else ''


def part_e(tier, i, n, seed, R, idx0):
    """BIT STRING under size constraints (bit strings that are equal as integers differ in length) and REAL under
    range / single-value constraints: construction and every value-producing operation"""
    idx = idx0
    for cd in trees(BIT_LEAVES, 2 if tier == 'quick' else 3):
        idx += 1
        if (idx + seed) % n != i:
            continue
        typ = univ.BitString().subtype(subtypeSpec=C.to_pyasn1(cd))
        feats0 = {'e.bits'} | ops_in(cd)
        for a in BIT_CANDS:
            want = C.admits_raw(cd, a)
            R.evaluations += 1
            R.nontrivial((cd, 'bits', a))
            got, leak = raises_constraint(lambda: typ.clone(a))
            rec = {'part': 'e', 'dom': 'bits', 'expr': cd, 'value': a}
            if leak is not None:
                R.violation('e.type.leak:' + type(leak).__name__, rec, exc_text(leak), 'admit or ValueConstraintError',
                            pyasn1_site(leak), feats0, idx)
                continue
            if got != want:
                R.violation('e.type.denotation', rec, 'constructor %s %r under %s' % ('accepts' if got else 'rejects', a, C.show(cd)),
                            'accepts' if want else 'rejects', 'type.base', feats0, idx)
                continue
            if not want:
                continue
            ops = []
            for s, e in itertools.product(range(0, 4), repeat=2):
                ops.append(('slice[%d:%d]' % (s, e), lambda va, s=s, e=e: va[s:e]))
            for b in BIT_CANDS[:15]:
                ops.append(('add:' + b, lambda va, b=b: va + b))
                ops.append(('radd:' + b, lambda va, b=b: b + va))
                ops.append(('clone:' + b, lambda va, b=b: va.clone(b)))
                ops.append(('subtype:' + b, lambda va, b=b: va.subtype(b)))
                ops.append(('clone_obj:' + b, lambda va, b=b: va.clone(univ.BitString(b))))
                ops.append(('clone_tuple:' + b, lambda va, b=b: va.clone(tuple(int(c) for c in b))))
                ops.append(('ctor_obj:' + b, lambda va, b=b: univ.BitString(univ.BitString(b), subtypeSpec=va.subtypeSpec)))
                ops.append(('decode:' + b, lambda va, b=b: ber_dec.decode(ber_enc.encode(univ.BitString(b)), asn1Spec=va)[0]))
                ops.append(('native_decode:' + b, lambda va, b=b: nat_dec.decode(b, asn1Spec=va)))
                ops.append(('native_decode_schema:' + b, lambda va, b=b: nat_dec.decode(b, asn1Spec=typ)))
                ops.append(('decode_chunked:' + b, lambda va, b=b: ber_dec.decode(
                    ber_enc.encode(univ.BitString(b + '0' * 8), maxChunkSize=1, defMode=False), asn1Spec=va)[0]))
            for k in (0, 1, 2, 3):
                ops.append(('mul:%d' % k, lambda va, k=k: va * k))
                ops.append(('rmul:%d' % k, lambda va, k=k: k * va))
                ops.append(('lshift:%d' % k, lambda va, k=k: va << k))
                ops.append(('rshift:%d' % k, lambda va, k=k: va >> k))
            for name, fn in ops:
                R.evaluations += 1
                feats = feats0 | {'op:' + name.split(':')[0].split('[')[0]}
                rec = {'part': 'e', 'dom': 'bits', 'expr': cd, 'op': name, 'a': a}
                try:
                    # the operand is validated immediately before the operation, as in user code
                    r = fn(typ.clone(a))
                except pyerr.PyAsn1Error:
                    R.features['e.refused'] += 1
                    continue
                except Exception as ex:
                    R.features['e.other_exception:' + type(ex).__name__] += 1
                    continue
                if isinstance(r, univ.BitString):
                    rv = bits_of(r)
                    R.nontrivial((cd, 'bits', name, a, rv))
                    if not C.admits_raw(cd, rv):
                        R.violation('e.bypass', rec, '%s on %r -> %r violating %s' % (name, a, rv, C.show(cd)),
                                    'ValueConstraintError or an admitted value', 'type.univ', feats, idx)
                    else:
                        R.features['e.ok'] += 1
    for cd in trees(REAL_LEAVES, 2):
        idx += 1
        if (idx + seed) % n != i:
            continue
        try:
            typ = univ.Real().subtype(subtypeSpec=C.to_pyasn1(cd))
        except Exception as ex:
            R.violation('e.construct', {'part': 'e', 'dom': 'real', 'expr': cd}, exc_text(ex), 'type can be derived',
                        pyasn1_site(ex), {'e.real'}, idx)
            continue
        for v in REAL_CANDS:
            R.evaluations += 1
            R.nontrivial((cd, 'real', v))
            want = C.admits_raw(cd, v)
            got, leak = raises_constraint(lambda: typ.clone(v))
            feats = {'e.real'} | ops_in(cd)
            rec = {'part': 'e', 'dom': 'real', 'expr': cd, 'value': v}
            if leak is not None:
                R.violation('e.real.leak:' + type(leak).__name__, rec, exc_text(leak), 'admit or ValueConstraintError',
                            pyasn1_site(leak), feats, idx)
            elif got != want:
                R.violation('e.real.denotation', rec, 'constructor %s %r under %s' % ('accepts' if got else 'rejects', v, C.show(cd)),
                            'accepts' if want else 'rejects', 'type.base', feats, idx)
            else:
                R.features['e.real.ok'] += 1
    return idx


def shard(tier, i, n, seed):
    R = Result()
    box = {'idx': 0}

    def run(name, fn, *a):
        def go():
            box['idx'] = fn(*a)
        before = box['idx']
        guarded(R, go, {'part': name}, {'part:' + name}, before)
        if box['idx'] is None or box['idx'] == before:
            box['idx'] = before + 1000000
    run('a', lambda: part_a(tier, i, n, seed, R))
    run('b', lambda: part_b(tier, i, n, seed, R, box['idx']))
    run('c', lambda: part_c(tier, i, n, seed, R, box['idx']))
    run('d', lambda: part_d(tier, i, n, seed, R, box['idx']))
    run('e', lambda: part_e(tier, i, n, seed, R, box['idx']))
    return R


def replay(case):
    return [{'clause': 'see-case', 'observed': repr(case)[:300], 'expected': 're-run bin/check C14'}]
