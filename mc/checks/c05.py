"""C05 - streaming decoder output is independent of the data arrival schedule.

E2 deviation-bounded exploration over the answers of every read() call (M2) and exhaustive
enumeration of arrival partitions for short streams (M1), on the real StreamingDecoder.
"""
import io
import itertools

from mc.checks import stream_corpus as SC
from mc.core import explore as X
from mc.core.runner import guarded, InternalError, Result, pyasn1_site, exc_text
from mc.env import streams as ST
from mc.model import x690 as M
from mc.model import forms as F
from mc.bind import pyasn1_bind as B

from pyasn1 import error as pyerr
from pyasn1.codec.ber import decoder as ber_dec
from pyasn1.codec.cer import decoder as cer_dec
from pyasn1.codec.der import decoder as der_dec

PROPERTY = 'C05'
LEVEL = 'fault_enumeration'
RULE = ('Streams = concatenations (n in 1..3) of reference-model encodings (DER/CER/indefinite/chunked/nested forms) '
        'of the reader-state cover set (mc/checks/stream_corpus.py). M2: every execution of the real StreamingDecoder '
        'in which at most d read() calls get a non-default answer (pending None, or short by r) - d=1 on every '
        'stream x stream kind {seekable, non-seekable behind CachingStreamWrapper, BytesIO subclass} x decoder x '
        '{with, without guiding type}, d=2 on single-item streams (quick) / all (thorough), d=3 on the cover set '
        '(thorough). M1: all 2^(n-1) arrival partitions of streams up to 12 (quick) / 14 (thorough) octets x '
        '{no extra poll, one empty poll after each cut} x {EOF with last byte, one poll later}. An execution is '
        'non-trivial when at least one deviation/cut occurred; distinct = digest of (stream, kind, decoder, spec, '
        'choice vector).')
ASSUMPTIONS = [
    'decoder inputs come from the reference encoder mc/model/x690.py; a stream whose 0-deviation decode already '
    'disagrees with the model (a C07/C09 matter) is skipped and counted under baseline_skipped',
    'the consumer retries next() after every underrun and does nothing else',
    'stream doubles in mc/env/streams.py implement read/seek/tell; CPython 3.12, PYTHONHASHSEED=0',
]
STREAMERS = {'ber': ber_dec.StreamingDecoder, 'cer': cer_dec.StreamingDecoder, 'der': der_dec.StreamingDecoder}


def consume(stream_obj, core, decname, spec, nobj, budget, advance=None):
    """Drive the streaming decoder to completion; return the event list."""
    log = core.log
    events = []
    try:
        it = iter(STREAMERS[decname](stream_obj, asn1Spec=spec))
    except Exception as e:
        return [('exc', type(e).__name__, pyasn1_site(e))]
    steps = 0
    while True:
        log.starved = False
        steps += 1
        if steps > budget:
            events.append(('livelock', steps))
            break
        r0 = log.reads
        try:
            item = next(it)
        except StopIteration:
            events.append(('stop',))
            break
        except RecursionError as e:
            events.append(('exc', 'RecursionError', pyasn1_site(e)))
            break
        except Exception as e:
            events.append(('exc', type(e).__name__, pyasn1_site(e), str(e)[:80]))
            break
        if isinstance(item, pyerr.SubstrateUnderrunError):
            events.append(('underrun', log.starved, log.reads - r0))
            if advance:
                advance()
        elif item is None:
            events.append(('none', log.starved))
            if advance:
                advance()
        else:
            try:
                pos = stream_obj.tell() if hasattr(stream_obj, 'tell') else None
            except Exception:
                pos = None
            try:
                sh = B.shape(item)
            except Exception as e:
                sh = ('unshapeable', repr(e))
            events.append(('obj', sh, pos))
    return events


def judge(events, base_objs, ends, kind, base_exc):
    """-> list of (clause, observed, expected)"""
    out = []
    objs = [e for e in events if e[0] == 'obj']
    for e in events:
        if e[0] == 'none':
            out.append(('bare_none', 'iterator yielded None', 'SubstrateUnderrunError instance'))
            break
    for e in events:
        if e[0] == 'underrun' and not e[1]:
            out.append(('spurious_underrun', 'underrun yielded although every read in this step was satisfied',
                        'no underrun'))
            break
    last = events[-1] if events else ('nothing',)
    if last[0] == 'exc':
        if base_exc is None or base_exc[1] != last[1]:
            out.append(('error:' + last[1], '%s at %s %s' % (last[1], last[2], last[3] if len(last) > 3 else ''),
                        'no error' if base_exc is None else base_exc[1]))
            return out
    elif last[0] == 'livelock':
        out.append(('livelock', 'no termination within %d steps' % last[1], 'termination'))
        return out
    elif base_exc is not None:
        out.append(('missing_error', 'stopped normally', base_exc[1]))
    got = [o[1] for o in objs]
    if got != base_objs[:len(got)] or (last[0] == 'stop' and len(got) != len(base_objs)):
        out.append(('objects', '%d objects %s' % (len(got), 'different' if got != base_objs[:len(got)] else 'prefix only'),
                    '%d objects as in the undisturbed run' % len(base_objs)))
    elif kind != 'nonseekable':
        for o, end in zip(objs, ends):
            if o[2] is not None and o[2] != end:
                out.append(('position', 'tell()=%s after object' % o[2], 'tell()=%d' % end))
                break
    return out


class Scenario(object):
    def __init__(self, name, items, kind, decname, use_spec):
        """items: list of (name, form, T, v, bytes) all of the same T"""
        self.name = name
        self.items = items
        self.kind = kind
        self.decname = decname
        self.T = items[0][2]
        self.use_spec = use_spec
        self.spec = B.to_spec(self.T) if use_spec else None
        self.data = b''.join(it[4] for it in items)
        self.ends = list(itertools.accumulate(len(it[4]) for it in items))
        self.base_objs = None
        self.base_exc = None

    def key(self):
        return (self.name, self.kind, self.decname, self.use_spec)

    def record(self, **kw):
        d = {'stream': self.data, 'items': [(it[0], it[1]) for it in self.items], 'T': self.T,
             'kind': self.kind, 'dec': self.decname, 'spec': self.use_spec}
        d.update(kw)
        return d

    def baseline(self):
        """0-deviation run on a plain io.BytesIO; also checked against the model values."""
        bio = io.BytesIO(self.data)
        core = ST.ScheduledCore(self.data)
        ev = consume(bio, core, self.decname, self.spec, len(self.items), len(self.items) + 4)
        objs = [e for e in ev if e[0] == 'obj']
        self.base_objs = [o[1] for o in objs]
        self.base_exc = ev[-1] if ev and ev[-1][0] == 'exc' else None
        if self.base_exc is not None or len(objs) != len(self.items):
            return False
        if self.use_spec:
            # the undisturbed decode must agree with the model, else this stream is not a C05 subject
            bio = io.BytesIO(self.data)
            try:
                got = [B.abs_of(o, self.T, self.spec) for o in STREAMERS[self.decname](bio, asn1Spec=self.spec)]
            except Exception:
                return False
            for g, it in zip(got, self.items):
                if not M.values_equal(self.T, g, it[3]):
                    return False
        return True

    def run_m2(self, chooser, shorts):
        core = ST.ScheduledCore(self.data, chooser, shorts=shorts)
        s = ST.KINDS[self.kind](core)
        budget = 4 * 4 + len(self.items) + 4
        ev = consume(s, core, self.decname, self.spec, len(self.items), budget)
        return ev, core.log

    def run_m1(self, cuts, extra_poll, eof_pending):
        pts = list(cuts) + [len(self.data)]
        core = ST.ScheduledCore(self.data, None, frontier=pts[0], eof_pending=eof_pending)
        state = {'i': 0, 'polled': False}

        def advance():
            if state['i'] + 1 < len(pts):
                if extra_poll and not state['polled']:
                    state['polled'] = True
                    return
                state['polled'] = False
                state['i'] += 1
                core.frontier = pts[state['i']]
        s = ST.KINDS[self.kind](core)
        budget = 3 * (len(pts) + 2) * (2 if extra_poll else 1) + len(self.items) + 6
        ev = consume(s, core, self.decname, self.spec, len(self.items), budget, advance)
        return ev, core.log


def scenarios(tier):
    """Yield Scenario objects: single items, pairs, triples."""
    encs = list(SC.encodings())
    singles = [[e] for e in encs]
    multi = []
    # pairs/triples: same case, different forms (same guiding type)
    by_case = {}
    for e in encs:
        by_case.setdefault(e[0], []).append(e)
    for name, lst in by_case.items():
        if len(lst[0][4]) > 40:
            continue
        multi.append([lst[0], lst[-1]])
        multi.append([lst[-1], lst[0], lst[len(lst) // 2]])
    for items in singles + multi:
        forms = [it[1] for it in items]
        decs = ['ber']
        if all('cer' in F.ACCEPTS[f] for f in forms) and any(f == 'cer' for f in forms):
            decs.append('cer')
        if all(f == 'der' for f in forms):
            decs.append('der')
        name = '+'.join('%s/%s' % (it[0], it[1]) for it in items)
        for decname in decs:
            for kind in ('seekable', 'nonseekable', 'bytesio'):
                for use_spec in (True, False):
                    if not use_spec and not SC.schemaless_ok(items[0][2]):
                        continue
                    yield Scenario(name, items, kind, decname, use_spec)


def explore_m2(sc, bound, shorts, R, idx):
    def run(ch):
        return sc.run_m2(ch, shorts)

    def on_exec(ch, obs):
        ev, log = obs
        R.evaluations += 1
        devs = ch.deviations()
        if devs:
            R.nontrivial((sc.key(), tuple(ch.choices)))
        for i, c, label in devs:
            R.sets['deviated_read_sizes'].add(label.split('@')[0])
        verdicts = judge(ev, sc.base_objs, sc.ends, sc.kind, sc.base_exc)
        if log.bad_seek and sc.kind == 'seekable':
            verdicts.append(('bad_seek', log.bad_seek, 'seeks stay within [element start, current position]'))
        for clause, obs_, exp in verdicts:
            feats = {'kind:' + sc.kind, 'dec:' + sc.decname, 'spec' if sc.use_spec else 'nospec', 'm2'}
            for i, c, label in devs:
                feats.add('dev:' + ('pending' if c == 1 else 'short'))
            kinds_ = CM_features(sc.T)
            feats |= kinds_
            last = ev[-1]
            site = last[2] if last[0] == 'exc' else 'streaming'
            R.violation(clause, sc.record(model='M2', choices=list(ch.choices),
                                          labels=[t[2] for t in ch.trace]),
                        obs_ + ' | events=' + summarize(ev), exp, site, feats, idx)
    n, pts = X.explore(run, bound, on_exec)
    R.extra['choice_points_total'] += pts
    return n


def summarize(ev):
    out = []
    for e in ev:
        if e[0] == 'obj':
            out.append('obj@%s' % e[2])
        elif e[0] == 'underrun':
            out.append('U' if e[1] else 'U!')
        else:
            out.append(e[0] + (':' + e[1] if e[0] == 'exc' else ''))
    return ' '.join(out)


def CM_features(T):
    from mc.checks.codec_matrix import type_features
    return type_features(T)


def explore_m1(sc, R, idx):
    n = len(sc.data)
    count = 0
    for mask in range(2 ** (n - 1)):
        cuts = [i + 1 for i in range(n - 1) if mask >> i & 1]
        for extra in (False, True):
            for eofp in (0, 1):
                ev, log = sc.run_m1(cuts, extra, eofp)
                R.evaluations += 1
                count += 1
                if cuts:
                    R.nontrivial((sc.key(), 'M1', mask, extra, eofp))
                verdicts = judge(ev, sc.base_objs, sc.ends, sc.kind, sc.base_exc)
                if log.bad_seek and sc.kind == 'seekable':
                    verdicts.append(('bad_seek', log.bad_seek, 'seeks stay within [element start, current position]'))
                for clause, obs_, exp in verdicts:
                    feats = {'kind:' + sc.kind, 'dec:' + sc.decname, 'spec' if sc.use_spec else 'nospec', 'm1'}
                    feats |= CM_features(sc.T)
                    last = ev[-1]
                    site = last[2] if last[0] == 'exc' else 'streaming'
                    R.violation(clause, sc.record(model='M1', cuts=cuts, extra_poll=extra, eof_pending=eofp),
                                obs_ + ' | events=' + summarize(ev), exp, site, feats, idx)
    return count


def one_scenario(sc, idx, tier, seed, R, maxlen_m1):
    if not sc.baseline():
        R.extra['baseline_skipped'] += 1
        R.sets['baseline_skipped_streams'].add('%s/%s/%s' % (sc.name, sc.decname, 'spec' if sc.use_spec else 'nospec'))
        return
    R.extra['streams'] += 1
    # determinism self-check: the same schedule twice gives identical observations
    a = sc.run_m2(X.Chooser((0, 1)), 'few')[0]
    b = sc.run_m2(X.Chooser((0, 1)), 'few')[0]
    if a != b:
        raise InternalError('non-deterministic replay for %r' % (sc.key(),))
    single = len(sc.items) == 1
    if tier == 'quick':
        bound = 2 if ((single and len(sc.data) <= 40) or len(sc.data) <= 16) else 1
        shorts = 'few'
    else:
        bound = 3 if (single and len(sc.data) <= 24) else 2
        shorts = 'all' if len(sc.data) <= 24 else 'few'
    ne = explore_m2(sc, bound, shorts, R, idx)
    R.extra['m2_executions'] += ne
    R.extra_max['deviation_bound_completed_max'] = max(R.extra_max.get('deviation_bound_completed_max', 0), bound)
    R.features['bound:%d' % bound] += 1
    if len(sc.data) <= maxlen_m1:
        R.extra['m1_executions'] += explore_m1(sc, R, idx)
        R.features['m1_streams'] += 1
    if idx % 97 == seed % 97:
        R.sample({'stream': sc.data.hex(), 'items': [(it[0], it[1]) for it in sc.items], 'kind': sc.kind,
                  'decoder': sc.decname, 'spec': sc.use_spec, 'bound': bound})


def shard(tier, i, n, seed):
    R = Result()
    maxlen_m1 = 12 if tier == 'quick' else 14
    idx = -1
    for sc in scenarios(tier):
        idx += 1
        if (idx + seed) % n != i:
            continue
        guarded(R, lambda: one_scenario(sc, idx, tier, seed, R, maxlen_m1), sc.record(), {'kind:' + sc.kind, 'dec:' + sc.decname}, idx, cpu_limit=180)
    return R


def replay(case):
    R = Result()
    items = [SC_lookup(nm, f) for nm, f in case['items']]
    sc = Scenario('replay', items, case['kind'], case['dec'], case['spec'])
    sc.baseline()
    if case.get('model') == 'M1':
        ev, log = sc.run_m1(case['cuts'], case['extra_poll'], case['eof_pending'])
    else:
        ev, log = sc.run_m2(X.Chooser(tuple(case['choices'])), 'all' if False else 'few')
    out = []
    for clause, obs_, exp in judge(ev, sc.base_objs, sc.ends, sc.kind, sc.base_exc):
        out.append({'clause': clause, 'observed': obs_ + ' | ' + summarize(ev), 'expected': exp})
    return out


def SC_lookup(name, form):
    for e in SC.encodings(names=(name,), forms=(form,)):
        return e
    raise KeyError((name, form))
