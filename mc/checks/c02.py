"""C02 - DER and CER round trips; canonical output accepted by every wider decoder (E1)."""
from mc.checks import codec_matrix as CM
from mc.model import x690 as M
from mc.core.runner import guarded, Result, pyasn1_site

PROPERTY = 'C02'
LEVEL = 'exploration'
RULE = ('E1 exhaustive product: every (type, value) of universe slices LEAF,BIG,TAGS,REC,OF,CH,NEST x '
        '(encoder, decoder) in {(DER,DER),(DER,CER),(DER,BER),(CER,CER),(CER,BER)}; plus pairwise '
        'agreement of all decoders that accept the same bytes. Non-trivial/distinct = distinct digest of '
        '(T, v, encoder, decoder); every generated value is a boundary value of its type.')
ASSUMPTIONS = [
    'reference model mc/model/x690.py used only to tell encoder faults from decoder faults (feature tag)',
    'abstract values read with non-mutating accessors; base-10 REAL compared with 1e-12 relative tolerance',
    'CPython 3.12, PYTHONHASHSEED=0',
]
PAIRS = (('der', 'der'), ('der', 'cer'), ('der', 'ber'), ('cer', 'cer'), ('cer', 'ber'))


def check_case(c, tier, R):
    for enc in ('der', 'cer'):
        st = c.encode(enc)
        base_feats = c.feats | {'enc:' + enc}
        if st[0] == 'exc':
            R.evaluations += 1
            R.violation('encode.error', c.record(enc=enc), CM.exc_text(st[1]), 'encoding succeeds',
                        pyasn1_site(st[1]), base_feats, c.idx, CM.script_for(c, enc))
            continue
        data = st[1]
        ok, why = CM.model_reads(c.T, data, c.v)
        base_feats = base_feats | {'encoder_output_ok' if ok else 'encoder_output_bad'}
        if not ok:
            base_feats = base_feats | c.kf(enc, data)
        results = {}
        for e2, dec in PAIRS:
            if e2 != enc:
                continue
            if dec == 'der' and 'any_nonder' in c.feats:
                continue      # an ANY value that is not itself DER is not a DER value
            R.evaluations += 1
            R.nontrivial((c.T, M.freeze(c.v), enc, dec))
            feats = base_feats | {'dec:' + dec}
            rec = c.record(enc=enc, dec=dec)
            d = CM.decode_to_abs(dec, data, c.T, c.spec)
            results[dec] = d
            if d[0] == 'exc':
                R.violation('decode.error', rec, CM.exc_text(d[1]) + ' on ' + data[:40].hex(),
                            'decodes to %r' % (c.v,), pyasn1_site(d[1]), feats, c.idx, CM.script_for(c, enc))
            elif d[0] == 'notvalue':
                R.violation('roundtrip.notvalue', rec, d[1], 'a value object', dec + '.decoder', feats, c.idx,
                            CM.script_for(c, enc))
            elif d[2] != b'':
                R.violation('roundtrip.remainder', rec, 'remainder %s of %s' % (d[2].hex(), data[:40].hex()),
                            'empty remainder', dec + '.decoder', feats, c.idx, CM.script_for(c, enc))
            elif not M.values_equal(c.T, d[1], c.v):
                R.violation('roundtrip.value', rec, '%r from %s' % (d[1], data[:40].hex()), repr(c.v),
                            dec + '.decoder', feats, c.idx, CM.script_for(c, enc))
            else:
                for f in feats:
                    R.features[f] += 1
        acc = [(k, d) for k, d in results.items() if d[0] == 'ok']
        for a in range(len(acc)):
            for b in range(a + 1, len(acc)):
                if not (M.values_equal(c.T, acc[a][1][1], acc[b][1][1]) and acc[a][1][2] == acc[b][1][2]):
                    R.violation('decoders.disagree', c.record(enc=enc, decs=[acc[a][0], acc[b][0]]),
                                '%s:%r vs %s:%r' % (acc[a][0], acc[a][1][1:], acc[b][0], acc[b][1][1:]),
                                'equal abstract values', 'decoder', base_feats, c.idx)


def shard(tier, i, n, seed):
    R = Result()
    for idx, name, T, v in CM.iter_cases(tier, i, n, seed):
        try:
            c = CM.Case(idx, name, T, v)
        except Exception as e:
            R.violation('build.error', {'slice': name, 'T': T, 'v': v}, CM.exc_text(e),
                        'value object can be built', pyasn1_site(e), CM.case_features(T, v), idx)
            continue
        guarded(R, lambda: check_case(c, tier, R), c.record(), c.feats, c.idx, cpu_limit=180)
        R.features['slice:' + name] += 1
        if idx % 9973 == seed % 9973:
            s = c.encode('cer')
            R.sample({'T': M.show_type(T), 'v': v, 'cer': s[1].hex() if s[0] == 'ok' else None})
    return R


def replay(case):
    R = Result()
    c = CM.Case(0, case.get('slice', '?'), case['T'], case['v'])
    check_case(c, 'thorough', R)
    return R.violations
