"""C13 - tags on the wire are exactly the type's tags (E1 over tag stacks + every single perturbation)."""
from mc.checks import codec_matrix as CM
from mc.core.runner import guarded, InternalError, Result, pyasn1_site, exc_text
from mc.model import x690 as M
from mc.model import universe as U
from mc.bind import pyasn1_bind as B

from pyasn1 import error as pyerr
from pyasn1.type import tag as pytag, univ
from pyasn1.codec.ber import encoder as ber_enc, decoder as ber_dec
from pyasn1.codec.der import encoder as der_enc, decoder as der_dec

PROPERTY = 'C13'
LEVEL = 'exploration'
RULE = ('E1 exhaustive: every stack of <= d IMPLICIT/EXPLICIT taggings (quick d=2: outer level classes '
        '{context, application, private} x numbers {0,30,31,127,128,16383,16384,2^32}, inner level context x '
        '{0,31,128,2^32}; thorough d=3) over every base type (all leaf kinds, SEQUENCE, SEQUENCE OF, SET, SET OF, '
        'CHOICE) plus ANY under explicit tags. Per type: (1) the tag algebra of the built pyasn1 type equals the '
        'model tag list incl. primitive/constructed form; (2) identifier-octet chain of the DER, CER and BER (definite, indefinite, maxChunkSize=1, both) encodings '
        'equals the model chain; (3) decoding with the type succeeds with the right value; (4) for EVERY single-'
        'position perturbation of the decoding type (class -> each other class, number +-1, number -> each other '
        'number of N, IMPLICIT<->EXPLICIT) whose tag sequence differs, decoding must raise PyAsn1Error; '
        'perturbed types under which the independent reader accepts the bytes (a flipped mode over a string type is a valid constructed string) are skipped; (5) EXPLICIT UNIVERSAL tagging is refused; (6) a value object of the type with its outermost tag taken off, or of the untagged base type, assigned to a SEQUENCE field / SEQUENCE OF member of the tagged type is refused or encoded with exactly the tags of the tagged type. Non-trivial = stack depth >= 1; distinct = digest of '
        '(type, perturbation).')
ASSUMPTIONS = [
    'reference tag algebra: mc.model.x690.tag_stack / ident_octets (X.680 31.2, X.690 8.1.2)',
    'CPython 3.12, PYTHONHASHSEED=0',
]
CLS_OF = {0x00: 'U', 0x40: 'A', 0x80: 'C', 0xC0: 'P'}


def ident_chain(data, depth):
    """identifier octets of the first `depth` nested TLVs (outermost first)"""
    out = []
    pos = 0
    for _ in range(depth):
        start = pos
        first = data[pos]
        pos += 1
        if first & 0x1F == 0x1F:
            while data[pos] & 0x80:
                pos += 1
            pos += 1
        out.append(bytes(data[start:pos]))
        lo = data[pos]
        pos += 1
        if lo & 0x80:
            pos += lo & 0x7F
        if not first & 0x20:
            break
    return out


def stack_of(T):
    """list of (mode, cls, num) outermost first, and the base"""
    st = []
    while T[0] == 'TAG':
        st.append((T[1], T[2], T[3]))
        T = T[4]
    return st, T


def model_forms(T):
    """expected (cls, constructed, num) per wire tag, outermost first"""
    tags = M.tag_stack(T)
    base = M.base_of(T)
    # innermost tag is constructed iff the base encoding is constructed; all outer ones are explicit wrappers
    out = []
    for i, (c, n) in enumerate(tags):
        if i < len(tags) - 1:
            out.append((c, True, n))
        else:
            out.append((c, base[0] in ('SEQ', 'SET', 'SEQOF', 'SETOF'), n))
    return out


def perturbations(T, nums):
    st, base = stack_of(T)
    for lvl in range(len(st)):
        mode, cls, num = st[lvl]
        alts = []
        for c in ('C', 'A', 'P'):
            if c != cls:
                alts.append((mode, c, num))
        for n2 in set([num + 1, num - 1] + list(nums)):
            if n2 >= 0 and n2 != num:
                alts.append((mode, cls, n2))
        alts.append(('E' if mode == 'I' else 'I', cls, num))
        for a in alts:
            st2 = list(st)
            st2[lvl] = a
            T2 = U.apply_stack(tuple(st2), base)
            if M.legal(T2):
                yield lvl, a, T2


def check_case(idx, T, v, R, tier):
    depth = len(stack_of(T)[0])
    feats = CM.type_features(T) | {'depth:%d' % depth}
    R.evaluations += 1
    if depth:
        R.nontrivial((T, 'self'))
    rec = {'T': T, 'v': v}
    try:
        spec = B.to_spec(T)
        obj = B.build(T, v, spec)
    except Exception as e:
        R.violation('build.error', rec, exc_text(e), 'type and value can be built', pyasn1_site(e), feats, idx)
        return
    base = M.base_of(T)
    tags = M.tag_stack(T)
    # (1) tag algebra
    if tags:
        want = [(M.CLS_BITS[c], n) for c, n in reversed(tags)]     # pyasn1 stores innermost first
        got = [(t.tagClass, t.tagId) for t in spec.tagSet.superTags]
        if got != want:
            R.violation('algebra.tags', rec, repr(got), repr(want), 'type.tag', feats, idx)
        forms = model_forms(T)
        gotf = [bool(t.tagFormat) for t in reversed(spec.tagSet.superTags)]
        wantf = [f for _, f, _ in forms]
        if base[0] not in ('CHOICE', 'ANY') and gotf != wantf:
            R.violation('algebra.form', rec, repr(gotf), repr(wantf), 'type.tag', feats, idx)
    # (2) identifier chain on the wire
    if 'real10' in CM.value_features(T, v):
        return
    ref = M.der(T, v)
    from pyasn1.codec.cer import encoder as cer_enc
    # with maxChunkSize=1 a string of more than one content octet is sent in constructed form: the innermost
    # identifier octet gains the constructed bit and nothing else changes
    chunked = False
    if base[0] in ('OCTS', 'STR'):
        chunked = len(M.str_octets(base[1], v) if base[0] == 'STR' else v) > 1
    elif base[0] == 'BITS':
        chunked = len(v) > 8
    for encname, fn in (('der', der_enc.encode), ('ber', ber_enc.encode), ('cer', cer_enc.encode),
                        ('ber-indef', lambda o: ber_enc.encode(o, defMode=False)),
                        ('ber-chunk1', lambda o: ber_enc.encode(o, maxChunkSize=1)),
                        ('ber-indef-chunk1', lambda o: ber_enc.encode(o, defMode=False, maxChunkSize=1))):
        if 'chunk1' in encname and base[0] == 'CHOICE':
            continue
        try:
            data = fn(B.build(T, v, spec))
        except Exception as e:
            R.violation('encode.error', dict(rec, enc=encname), exc_text(e), 'encodes', pyasn1_site(e), feats, idx)
            continue
        want = ident_chain(ref, max(1, len(tags)))
        if 'chunk1' in encname and chunked and len(want) == max(1, len(tags)):
            want = want[:-1] + [bytes([want[-1][0] | 0x20]) + want[-1][1:]]
        try:
            got = ident_chain(data, max(1, len(tags)))
        except IndexError:
            got = None
        if got != want:
            R.violation('wire.identifiers', dict(rec, enc=encname), '%s in %s' % (got, data[:24].hex()),
                        '%s in %s' % (want, ref[:24].hex()), encname + '.encoder', feats, idx)
    # (3) accept with the right type
    d = CM.decode_to_abs('ber', ref, T, spec)
    if not (d[0] == 'ok' and d[2] == b'' and M.values_equal(T, d[1], v)):
        R.violation('accept', rec, (exc_text(d[1]) if d[0] == 'exc' else repr(d[1:])) + ' on ' + ref[:24].hex(),
                    repr(v), pyasn1_site(d[1]) if d[0] == 'exc' else 'ber.decoder', feats, idx)
    else:
        for f in feats:
            R.features[f] += 1
    # (6) value objects carrying only part of the tags
    check_foreign_value(idx, T, v, R)
    # (4) reject near-miss types
    nums = U.TAG_NUMS_QUICK if tier != 'quick' or depth < 2 else U.TAG_NUMS_SMALL
    for lvl, alt, T2 in perturbations(T, nums):
        if M.tag_stack(T2) == tags:
            continue
        R.evaluations += 1
        R.nontrivial((T, lvl, alt))
        kind = ('class' if alt[1] != stack_of(T)[0][lvl][1] else 'mode' if alt[0] != stack_of(T)[0][lvl][0] else 'number')
        R.features['perturb:' + kind] += 1
        # the independent reader decides whether the bytes are a legitimate encoding of T2
        # (e.g. [0] EXPLICIT OCTET STRING is also a valid constructed [0] IMPLICIT OCTET STRING)
        try:
            M.read(T2, ref)
            if kind != 'mode':
                raise InternalError('reference reader accepts %s under perturbed type %r' % (ref.hex(), T2))
            R.features['perturb:legitimately_accepted'] += 1
            continue
        except M.ReadError:
            pass
        spec2 = B.to_spec(T2)
        for decname in ('ber', 'der'):
            try:
                r = CM.DECODERS[decname](ref, asn1Spec=spec2)
            except pyerr.PyAsn1Error:
                continue
            except Exception as e:
                R.violation('reject.leak:' + type(e).__name__, dict(rec, T2=T2, dec=decname), exc_text(e),
                            'PyAsn1Error', pyasn1_site(e), feats | {'perturb:' + kind, 'level:%d' % lvl}, idx)
                continue
            R.violation('reject.accepted', dict(rec, T2=T2, dec=decname),
                        'decode(%s, %s) returned %r' % (ref[:24].hex(), M.show_type(T2), r),
                        'PyAsn1Error (tags differ at level %d)' % lvl, decname + '.decoder',
                        feats | {'perturb:' + kind, 'level:%d' % lvl}, idx)


def check_foreign_value(idx, T, v, R):
    """(6) a value object whose tags are only PART of the field's tags (the field's type with its outermost tag
    taken off, and the untagged base type) put into a field of type T: refused, or else the encoding still carries
    exactly T's tags"""
    from pyasn1.type import univ, namedtype
    st, base = stack_of(T)
    if not st or base[0] in ('CHOICE', 'ANY'):
        return
    tags = M.tag_stack(T)
    spec = B.to_spec(T)
    inner_types = []
    if T[0] == 'TAG':
        inner_types.append(T[4])
    if base not in inner_types:
        inner_types.append(base)
    for IT in inner_types:
        if M.tag_stack(IT) == tags:
            continue
        try:
            foreign = B.build(IT, v, B.to_spec(IT))
        except Exception:
            continue
        for kind in ('sequence field', 'sequence-of member'):
            R.evaluations += 1
            R.nontrivial((T, 'foreign', IT, kind))
            feats = CM.type_features(T) | {'foreign_value', 'into:' + kind.split(' ')[0]}
            rec = {'T': T, 'v': v, 'foreign_type': IT, 'into': kind}
            if kind == 'sequence field':
                box = univ.Sequence(componentType=namedtype.NamedTypes(namedtype.NamedType('f', spec)))
                put = lambda: box.setComponentByName('f', foreign)
                want_prefix = b'\x30'
            else:
                box = univ.SequenceOf(componentType=spec)
                put = lambda: box.append(foreign)
                want_prefix = b'\x30'
            try:
                put()
            except (pyerr.PyAsn1Error, KeyError, IndexError):
                R.features['foreign.refused'] += 1
                continue
            except Exception as e:
                R.violation('foreign.leak:' + type(e).__name__, rec, exc_text(e), 'refused or stored with the field tags',
                            pyasn1_site(e), feats, idx)
                continue
            try:
                data = der_enc.encode(box)
            except pyerr.PyAsn1Error:
                R.features['foreign.refused_at_encoding'] += 1
                continue
            ref = M.der(('SEQ', (('f', T, 'R', None),)), {'f': v}) if kind == 'sequence field' else M.der(('SEQOF', T), [v])
            if data != ref and 'real10' not in CM.value_features(T, v):
                R.violation('foreign.wire', rec, 'a %s value was accepted as %s of type %s and encoded as %s' % (
                    M.show_type(IT), kind, M.show_type(T), data[:24].hex()), ref[:24].hex(), 'type.tag', feats, idx)


def check_universal_refused(R):
    R.evaluations += 1
    for cls in (univ.Integer, univ.OctetString, univ.Sequence, univ.Choice):
        try:
            cls().subtype(explicitTag=pytag.Tag(pytag.tagClassUniversal, pytag.tagFormatSimple, 5))
        except pyerr.PyAsn1Error:
            R.features['universal_refused'] += 1
            continue
        except Exception as e:
            R.violation('universal.leak', {'cls': cls.__name__}, exc_text(e), 'PyAsn1Error', pyasn1_site(e), (), 0)
            continue
        R.violation('universal.accepted', {'cls': cls.__name__}, 'EXPLICIT UNIVERSAL tag accepted', 'PyAsn1Error',
                    'type.tag', (), 0)


def cases(tier):
    idx = -1
    for T, v in U.TAGS(tier):
        idx += 1
        yield idx, T, v
    # containers holding several long-form tags of the same class and form (sibling elements)
    for T, v in U.NEST(tier):
        if U.contains(T, lambda t: t[0] == 'TAG' and t[3] >= 31) and T[0] != 'TAG':
            idx += 1
            yield idx, T, v
    # ANY under explicit tags
    for st in U.tag_stacks(2 if tier == 'quick' else 3, U.TAG_NUMS_SMALL, classes=('C', 'P')):
        if any(m == 'I' for m, _, _ in st[-1:]):
            continue      # innermost tagging over ANY must be EXPLICIT
        T = U.apply_stack(st, U.ANY)
        if M.legal(T):
            idx += 1
            yield idx, T, bytes.fromhex('020105')


def shard(tier, i, n, seed):
    R = Result()
    if i == 0:
        check_universal_refused(R)
    for idx, T, v in cases(tier):
        if (idx + seed) % n != i:
            continue
        guarded(R, lambda: check_case(idx, T, v, R, tier), {'T': T, 'v': v}, CM.type_features(T), idx, cpu_limit=180)
        if idx % 997 == seed % 997:
            R.sample({'T': M.show_type(T), 'identifiers': [x.hex() for x in ident_chain(M.der(T, v), max(1, len(M.tag_stack(T))))]
                      if 'real10' not in CM.value_features(T, v) else None})
    return R


def replay(case):
    R = Result()
    check_case(0, case['T'], case['v'], R, 'thorough')
    return R.violations
