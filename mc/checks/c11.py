"""C11 - decoding result does not depend on the kind of input object.

(a) E1: corpus x substrate kinds x buffer sizes; (b) E3 BFS of CachingStreamWrapper against io.BytesIO.
"""
import gzip
import io
import os
import shutil
import tempfile
import zipfile

from mc.checks import stream_corpus as SC
from mc.checks import codec_matrix as CM
from mc.core import bfs as BFS
from mc.core.bfs import ANY
from mc.core.runner import guarded, InternalError, Result, pyasn1_site, exc_text
from mc.env import streams as ST
from mc.model import x690 as M
from mc.model import forms as F
from mc.model import universe as U
from mc.bind import pyasn1_bind as B

from pyasn1 import error as pyerr
from pyasn1.type import univ
from pyasn1.codec import streaming
from pyasn1.codec.ber import decoder as ber_dec

PROPERTY = 'C11'
LEVEL = 'model_checking'
RULE = ('(b) E3 breadth-first search over operation histories on the real CachingStreamWrapper over a 10-octet raw '
        'non-seekable stream with io.DEFAULT_BUFFER_SIZE patched to 3: alphabet {read(n) n in {0,1,2,3,-1}, peek(n) n in '
        '{1,2,3}, read/peek while the raw source answers "nothing yet", tell, set mark at the current position, seek back to every p with mark <= p <= current}, depth 6 (quick) '
        '/ 8 (thorough), every step compared with io.BytesIO over the same octets driven by the same operations '
        '(positions compared relative to the last renumbering reported by the wrapper). States merged on (reference '
        'position, mark, raw wrapper cache contents and offsets). (a) E1: every corpus encoding (cover set all forms, '
        'valid and damaged, + elements of 8191/8192/8193/20000 octets, single elements of 2**16+1, 2**20+1, 2**24+1 octets, and deep/wide containers) presented as 11 '
        'substrate kinds {bytes, BytesIO, OctetString, Any, real file, BufferedReader over non-seekable raw, gzip file, '
        'zip member, bare non-seekable stream, unbuffered io.RawIOBase that cannot seek, unbuffered disk file} x {one-shot, streaming} x io.DEFAULT_BUFFER_SIZE in {2,3,5,16, default}: '
        'identical (abstract value shapes, remainder, error class). Distinct = digest of (bytes, kind, buffer size, mode) / '
        'BFS transition.')
ASSUMPTIONS = [
    'io.DEFAULT_BUFFER_SIZE is patched in the checking process (the wrapper reads it at call time); the unpatched '
    'size is exercised with elements larger than 8192 octets',
    'backward seeks are permitted down to the mark only (documented contract of the wrapper)',
    'CPython 3.12, PYTHONHASHSEED=0',
]

DATA = bytes(range(0x41, 0x4B))      # 10 distinct octets


class RawNS(object):
    def __init__(self, data):
        self._b = io.BytesIO(data)
        self.pending = False       # a non-blocking source: the next read finds nothing there yet

    def read(self, n=-1):
        if self.pending:
            self.pending = False
            return None
        return self._b.read(n)

    def seekable(self):
        return False


class WrapperSubject(object):
    """model = (pos, mark) of the reference BytesIO; obj = (wrapper, base) where base is the absolute position
    corresponding to wrapper position 0 (changes when the wrapper renumbers)."""
    name = 'CachingStreamWrapper'

    def __init__(self, bufsize=3):
        self.bufsize = bufsize

    def fresh(self):
        w = streaming.CachingStreamWrapper(RawNS(DATA))
        return {'w': w, 'base': 0}, (0, 0, 0)

    def enabled(self, m):
        pos, mark, hw = m
        ops = ['read(1)', 'read(2)', 'read(3)', 'read(0)', 'read(-1)', 'peek(1)', 'peek(2)', 'peek(3)', 'tell', 'mark',
               # the same while the raw source has nothing yet ("pending"): what is cached is served, else None
               'readp(2)', 'readp(-1)', 'peekp(1)', 'peekp(3)']
        for p in range(mark, pos):
            ops.append('seek(%d)' % p)
        if pos > mark:
            ops.append('seekcur(-1)')
        return ops

    def expect(self, label, m):
        pos, mark, hw = m
        if label.startswith(('readp', 'peekp')):
            n = int(label.split('(')[1][:-1])
            avail = hw - pos
            if n != -1 and n <= avail:
                out, newpos = DATA[pos:pos + n], pos + n
            elif avail > 0:
                out, newpos = DATA[pos:hw], hw
            else:
                out, newpos = (None if n != 0 else b''), pos
            if label.startswith('peekp'):
                newpos = pos
            return (newpos, mark, hw), ('ok', out)
        ref = io.BytesIO(DATA)
        ref.seek(pos)
        name, arg = label.split('(')[0], None
        if '(' in label:
            arg = int(label.split('(')[1][:-1])
        if name == 'read':
            out = ref.read(arg)
            return (ref.tell(), mark, max(hw, ref.tell())), ('ok', out)
        if name == 'peek':
            out = ref.read(arg)
            return (pos, mark, max(hw, ref.tell())), ('ok', out)
        if name == 'tell':
            return m, ('ok', pos)
        if name == 'mark':
            return (pos, pos, hw), ('ok', ANY)
        if name == 'seek':
            return (arg, mark, hw), ('ok', ANY)
        if name == 'seekcur':
            return (pos - 1, mark, hw), ('ok', ANY)
        raise ValueError(label)

    def apply(self, label, obj, m):
        w = obj['w']
        base = obj['base']
        pos, mark, hw = m
        name, arg = label.split('(')[0], None
        if '(' in label:
            arg = int(label.split('(')[1][:-1])
        old = io.DEFAULT_BUFFER_SIZE
        io.DEFAULT_BUFFER_SIZE = self.bufsize
        try:
            if name in ('readp', 'peekp'):
                w._raw.pending = True
                try:
                    return obj, ('ok', w.read(arg) if name == 'readp' else w.peek(arg))
                finally:
                    w._raw.pending = False
            if name == 'read':
                return obj, ('ok', w.read(arg))
            if name == 'peek':
                return obj, ('ok', w.peek(arg))
            if name == 'tell':
                return obj, ('ok', w.tell() + base)
            if name == 'mark':
                before = w.tell()
                w.markedPosition = before
                after = w.tell()
                # the wrapper may renumber: positions handed out earlier are then offset by (before - after)
                obj['base'] = base + (before - after)
                if w.markedPosition + obj['base'] != pos:
                    return obj, ('ok', ('markedPosition', w.markedPosition + obj['base']))
                return obj, ('ok', None)
            if name == 'seek':
                w.seek(arg - base)
                return obj, ('ok', None)
            if name == 'seekcur':
                w.seek(-1, os.SEEK_CUR)
                return obj, ('ok', None)
        except Exception as e:
            return obj, ('leak', type(e).__name__, pyasn1_site(e), str(e)[:80])
        finally:
            io.DEFAULT_BUFFER_SIZE = old
        raise ValueError(label)

    def judge(self, label, obj1, obj2, model1, model2, outcome, expected):
        problems = []
        if outcome[0] == 'leak':
            problems.append(('wrapper.leak:' + outcome[1], '%s raised %s %s' % (label, outcome[1], outcome[3]),
                             'behaves like a seekable stream', outcome[2]))
            return problems
        if expected[1] is not ANY and outcome[1] != expected[1]:
            problems.append(('wrapper.result', '%s returned %r' % (label, outcome[1]), repr(expected[1]), 'codec.streaming'))
        elif expected[1] is ANY and outcome[1] is not None:
            problems.append(('wrapper.mark', '%s: %r' % (label, outcome[1]), 'mark at current position', 'codec.streaming'))
        w = obj2['w']
        if label == 'tell' and obj2['base'] and not problems:
            # like a seekable stream: tell() is the absolute offset; after the wrapper renumbered its positions
            # (mark set while the cache exceeded the buffer size) it is not
            problems.append(('wrapper.tell_absolute', 'tell()=%d after renumbering by %d' % (w.tell(), obj2['base']),
                             'tell()=%d' % model2[0], 'codec.streaming'))
        if w.tell() + obj2['base'] != model2[0]:
            problems.append(('wrapper.position', 'after %s tell()+base=%d' % (label, w.tell() + obj2['base']),
                             'position %d' % model2[0], 'codec.streaming'))
        return problems

    def canon(self, obj, model):
        w = obj['w']
        return (model, obj['base'], w._cache.getvalue(), w._cache.tell(), w._markedPosition)


# ---------------------------------------------------------------------------
# (a) substrate kinds
# ---------------------------------------------------------------------------

class RawFile(io.RawIOBase):
    """non-seekable raw stream over bytes (for BufferedReader)"""

    def __init__(self, data):
        self._b = io.BytesIO(data)

    def readable(self):
        return True

    def seekable(self):
        return False

    def readinto(self, b):
        d = self._b.read(len(b))
        b[:len(d)] = d
        return len(d)


def substrates(data, tmpdir):
    """yield (kind, factory) - factory returns (substrate, closer)"""
    yield 'bytes', lambda: (data, None)
    yield 'BytesIO', lambda: (io.BytesIO(data), None)
    yield 'OctetString', lambda: (univ.OctetString(data), None)
    yield 'Any', lambda: (univ.Any(data), None)

    def realfile():
        p = os.path.join(tmpdir, 'f.bin')
        with open(p, 'wb') as f:
            f.write(data)
        fh = open(p, 'rb')
        return fh, fh.close
    yield 'file', realfile
    yield 'BufferedReader', lambda: (io.BufferedReader(RawFile(data)), None)

    def gz():
        p = os.path.join(tmpdir, 'f.gz')
        with gzip.open(p, 'wb') as f:
            f.write(data)
        fh = gzip.open(p, 'rb')
        return fh, fh.close
    yield 'gzip', gz

    def zp():
        p = os.path.join(tmpdir, 'f.zip')
        with zipfile.ZipFile(p, 'w') as z:
            z.writestr('m', data)
        z = zipfile.ZipFile(p)
        fh = z.open('m')
        return fh, lambda: (fh.close(), z.close())
    yield 'zipmember', zp
    yield 'nonseekable', lambda: (RawNS(data), None)
    # unbuffered raw streams (io.RawIOBase): one that cannot seek (socket.makefile('rb', buffering=0) /
    # os.fdopen(pipe, 'rb', 0) alike) and an unbuffered disk file
    yield 'rawio-nonseekable', lambda: (RawFile(data), None)

    def rawfile():
        p = os.path.join(tmpdir, 'r.bin')
        with open(p, 'wb') as f:
            f.write(data)
        fh = open(p, 'rb', buffering=0)
        return fh, fh.close
    yield 'file-unbuffered', rawfile


def observe(sub, spec, streaming_mode):
    """-> canonical observation (values as raw shapes, remainder, error class)"""
    try:
        if not streaming_mode:
            obj, rest = ber_dec.decode(sub, asn1Spec=spec)
            return ('ok', B.shape(obj) if obj is not None else None, bytes(rest))
        out = []
        for item in ber_dec.StreamingDecoder(sub, asn1Spec=spec):
            if isinstance(item, pyerr.SubstrateUnderrunError):
                out.append('underrun')
                break
            out.append(B.shape(item) if item is not None else None)
            if len(out) > 40:
                break
        return ('ok', out)
    except pyerr.PyAsn1Error as e:
        name = type(e).__name__
        if isinstance(e, pyerr.SubstrateUnderrunError):
            name = 'SubstrateUnderrunError'       # EndOfStreamError is the same condition seen at a stream end
        return ('err', name)
    except RecursionError:
        return ('leak', 'RecursionError')
    except Exception as e:
        return ('leak', type(e).__name__)


def corpus_a(tier):
    idx = 0
    for name, form, T, v, e in SC.encodings():
        yield name + '/' + form, T, e
        # a damaged variant and a truncated variant
        if len(e) > 3:
            yield name + '/' + form + '/trunc', T, e[:-2]
            yield name + '/' + form + '/damaged', T, e[:2] + bytes([e[2] ^ 0x5A]) + e[3:]
        # two items back to back
        if len(e) < 40:
            yield name + '/' + form + '/x2', T, e + e
    # big elements straddling the default buffer size
    for n in (8191, 8192, 8193, 20000):
        T = U.OCTS
        yield 'big-octs-%d' % n, T, M.der(T, bytes(i & 0xFF for i in range(n)))
    # single elements just beyond powers of two up to 16 MiB (any internal chunking or clamping of raw reads)
    for n in ((2 ** 16 + 1, 2 ** 20 + 1, 2 ** 24 + 1) if tier == 'quick' else (2 ** 16 + 1, 2 ** 20 + 1, 2 ** 22 + 1, 2 ** 24 + 1, 2 ** 25 + 1)):
        yield 'huge-octs-%d' % n, U.OCTS, b'\x04' + M.length_octets(n) + bytes(n)
    T = ('SEQ', (('k', U.INT, 'R', None), ('any', U.ANY, 'R', None)))
    for n in (8190, 20000):
        inner = M.der(U.OCTS, b'\x01' * n)
        yield 'seq-any-big-%d' % n, T, M.der(T, {'k': 1, 'any': inner})
        yield 'seq-any-big-indef-%d' % n, T, F.encode('indef', T, {'k': 1, 'any': inner})
    T = ('SEQOF', U.OCTS)
    yield 'wide', T, M.der(T, [b'ab'] * 3000)
    yield 'wide-indef', T, F.encode('indef', T, [b'abc'] * 3000)
    T = ('SEQOF', ('SEQOF', ('SEQOF', ('SEQOF', U.INT))))
    yield 'deep', T, F.encode('indef', T, [[[[1, 2], [3]], [[4]]], [[[5]]]])


def part_a(tier, i, n, seed, R):
    tmpdir = tempfile.mkdtemp(prefix='c11-')
    old = io.DEFAULT_BUFFER_SIZE
    try:
        idx = -1
        for name, T, data in corpus_a(tier):
            idx += 1
            if (idx + seed) % n != i:
                continue
            guarded(R, lambda: one_input(name, T, data, tier, R, idx, tmpdir, old),
                    {'name': name, 'T': T, 'len': len(data)}, {'a'}, idx, cpu_limit=180)
    finally:
        io.DEFAULT_BUFFER_SIZE = old
        shutil.rmtree(tmpdir, ignore_errors=True)


def one_input(name, T, data, tier, R, idx, tmpdir, old):
    if True:
        if True:
            spec = B.to_spec(T)
            small = len(data) <= 200
            bufs = (2, 3, 5, 16, old) if small else (old, 16 if tier != 'quick' else old)
            for streaming_mode in (False, True):
                ref = None
                for buf in sorted(set(bufs)):
                    for kind, factory in substrates(data, tmpdir):
                        R.evaluations += 1
                        R.nontrivial((data[:64], len(data), kind, buf, streaming_mode))
                        io.DEFAULT_BUFFER_SIZE = buf
                        sub, closer = factory()
                        try:
                            obs = observe(sub, spec, streaming_mode)
                        finally:
                            io.DEFAULT_BUFFER_SIZE = old
                            if closer:
                                try:
                                    closer()
                                except Exception:
                                    pass
                        if ref is None:
                            ref = (kind, buf, obs)
                            continue
                        if obs != ref[2]:
                            feats = {'a', 'kind:' + kind, 'buf:%s' % ('default' if buf == old else buf),
                                     'longer_than_buffer' if len(data) > buf else 'fits_buffer',
                                     # K8 needs a position taken before a renumbering and used after it: a renumbering
                                     # while inside the content of a definite-length constructed element
                                     'renumbering_inside_definite_constructed' if renumbering_inside_definite(data, buf, U.contains(T, lambda t: t[0] == 'CHOICE'))
                                     else 'no_renumbering_inside_definite_constructed',
                                     'wrapped_kind' if kind in ('BufferedReader', 'nonseekable', 'rawio-nonseekable') else 'seekable_kind',
                                     'streaming' if streaming_mode else 'oneshot', 'big' if not small else 'small',
                                     'variant:' + (name.split('/')[-1] if '/' in name else name)}
                            R.violation('kinds.differ', {'name': name, 'T': T, 'data': data if small else data[:64], 'len': len(data),
                                                         'kind': kind, 'buf': buf, 'streaming': streaming_mode},
                                        '%s(buf=%s): %s' % (kind, buf, summarize(obs)),
                                        '%s(buf=%s): %s' % (ref[0], ref[1], summarize(ref[2])), 'codec.streaming', feats, idx)
                        else:
                            R.features['a.kind:' + kind] += 1
            if small and '/' in name and name.split('/')[-1] not in ('trunc', 'damaged'):
                offset_variant(name, T, data, spec, R, idx, tmpdir, old)
            if idx % 37 == 0:
                R.sample({'part': 'a', 'name': name, 'octets': len(data)})


HEADER = b'HDR\x00\x01\x02\x03\x04\x05'


def offset_variant(name, T, data, spec, R, idx, tmpdir, old):
    """the stream is handed to the decoder positioned after a 9-octet application header"""
    whole = HEADER + data
    ref = None
    for kind, factory in substrates(whole, tmpdir):
        if kind in ('bytes', 'OctetString', 'Any'):
            continue           # no notion of a current position
        for streaming_mode in (False, True):
            R.evaluations += 1
            R.nontrivial((data[:64], kind, 'offset', streaming_mode))
            sub, closer = factory()
            try:
                got = sub.read(len(HEADER))
                if got != HEADER:
                    raise InternalError('substrate kind %s did not deliver the header' % kind)
                obs = observe(sub, spec, streaming_mode)
            finally:
                if closer:
                    try:
                        closer()
                    except Exception:
                        pass
            want = observe(data, spec, streaming_mode)
            if obs != want:
                R.violation('kinds.differ_at_offset', {'name': name, 'T': T, 'data': data, 'kind': kind, 'streaming': streaming_mode},
                            '%s positioned after a %d-octet header: %s' % (kind, len(HEADER), summarize(obs)),
                            'as from bytes: %s' % summarize(want), 'codec.streaming',
                            {'a', 'offset', 'kind:' + kind, 'streaming' if streaming_mode else 'oneshot',
                             'wrapped_kind' if kind in ('BufferedReader', 'nonseekable', 'rawio-nonseekable') else 'seekable_kind'}, idx)
            else:
                R.features['a.offset:' + kind] += 1


def renumbering_inside_definite(data, buf, choice_reentry=False):
    """Does the wrapper renumber its positions (a mark set more than `buf` octets after the previous
    renumbering; marks are set at every element start) while the decoder is inside the content of a
    definite-length constructed element?  Tolerant scan: damaged inputs are followed as far as headers parse."""
    marks = []      # (start position, inside a definite-length constructed element?)

    def scan(pos, end, depth, inside):
        while pos < end and depth < 40:
            if data[pos:pos + 2] == b'\x00\x00':
                pos += 2
                continue
            try:
                cls, constructed, num, length, p, _ = M.parse_header(data, pos, end)
            except M.ReadError:
                marks.append((pos, inside))
                return
            marks.append((pos, inside))
            if choice_reentry and length is not None:
                # an untagged CHOICE re-enters the item decoder after the header of its alternative, which sets
                # another mark there - inside the (definite-length) element being measured by the caller
                marks.append((p, True))
            if length is None:
                scan(p, end, depth + 1, inside)
                return
            if constructed:
                scan(p, min(p + length, end), depth + 1, True)
            pos = p + length
    scan(0, len(data), 0, False)
    base = 0
    for pos, inside in marks:
        if pos - base > buf:
            base = pos
            if inside:
                return True
    return False


def summarize(obs):
    s = repr(obs)
    return s if len(s) < 160 else s[:160] + '...'


def part_b(tier, R):
    depth = 6 if tier == 'quick' else 8
    for bufsize in (2, 3):
        subj = WrapperSubject(bufsize)

        def on_transition(hist, label, obj, model, outcome, expected, problems):
            R.evaluations += 1
            if hist:
                R.nontrivial(('wrapper', bufsize, hist, label))
            for clause, observed, exp, site in problems:
                feats = {'b', 'buf:%d' % bufsize, 'op:' + label.split('(')[0]}
                if any(h == 'mark' for h in hist):
                    feats.add('after_mark')
                R.violation(clause, {'part': 'b', 'bufsize': bufsize, 'history': list(hist), 'op': label},
                            'history %s: %s' % (' ; '.join(hist) or '<fresh>', observed), exp, site, feats,
                            len(hist) * 1000)
        stats = BFS.bfs(subj, depth, on_transition)
        R.extra['states'] += stats['states']
        R.extra['transitions'] += stats['transitions']
        R.extra['traces_validated_against_impl'] += stats['transitions']
        R.extra_max['max_depth'] = max(R.extra_max.get('max_depth', 0), stats['max_depth'])
        R.sample({'part': 'b', 'bufsize': bufsize, 'states': stats['states'], 'transitions': stats['transitions'],
                  'example_history': ['read(2)', 'mark', 'read(3)', 'seek(2)', 'peek(2)', 'tell']})


def shard(tier, i, n, seed):
    R = Result()
    if i == 0:
        guarded(R, lambda: part_b(tier, R), {'part': 'b'}, {'b'}, 0)
    part_a(tier, i, n, seed, R)
    return R


def replay(case):
    if case.get('part') == 'b':
        subj = WrapperSubject(case['bufsize'])
        obj, model = BFS.replay(subj, tuple(case['history']))
        model2, expected = subj.expect(case['op'], model)
        obj2, outcome = subj.apply(case['op'], obj, model)
        return [{'clause': p[0], 'observed': p[1], 'expected': p[2]}
                for p in subj.judge(case['op'], obj, obj2, model, model2, outcome, expected)]
    return [{'clause': 'see-case', 'observed': repr(case)[:200], 'expected': 're-run bin/check C11'}]
