"""Reader-state cover set: (name, T, v, forms) used by the streaming checks C05 C06 C11 C12."""
from mc.model import universe as U
from mc.model import x690 as M
from mc.model import forms as F

INT, BOOL, OCTS, BITS, NULL, OID, REAL, ANY, UTF8, ENUM = (U.INT, U.BOOL, U.OCTS, U.BITS, U.NULL, U.OID,
                                                           U.REAL, U.ANY, U.UTF8, U.ENUM)
I, E = U.I, U.E

SEQ_OD = ('SEQ', (('a', INT, 'R', None), ('b', I(0, OCTS), 'O', None), ('c', BOOL, 'D', False)))
SET_2 = ('SET', (('x', INT, 'R', None), ('y', E(1, BOOL), 'O', None), ('z', I(2, NULL), 'R', None)))
CH = ('CHOICE', (('i', INT), ('s', I(3, OCTS)), ('q', ('SEQOF', BOOL))))
SEQ_ANY = ('SEQ', (('k', INT, 'R', None), ('any', ANY, 'R', None)))
SEQ_ANYOPT = ('SEQ', (('k', INT, 'R', None), ('any', ANY, 'O', None)))
NESTED = E(5, ('SEQOF', ('SEQ', (('a', INT, 'R', None), ('c', CH, 'R', None)))))

ALLF = ('der', 'cer', 'indef')
STRF = ('der', 'indef', 'chunk', 'indef-chunk', 'nested')

CASES = [
    ('int', INT, 5, ('der',)),
    ('int-neg', INT, -129, ('der', 'longlen')),
    ('bool', BOOL, True, ('der',)),
    ('null', NULL, None, ('der',)),
    ('enum', ENUM, 300, ('der',)),
    ('oid', OID, (1, 3, 6, 1, 4, 1, 2 ** 32), ('der',)),
    ('real', REAL, (-5, 2, 3), ('der',)),
    ('longtag-int', I(1000, INT), 7, ('der',)),
    ('tag31-octs', I(31, OCTS, 'A'), b'xy', ('der',)),
    ('longlen-octs', OCTS, bytes(range(130)), ('der', 'chunk')),
    ('octs', OCTS, b'abcde', STRF),
    ('octs-empty', OCTS, b'', ('der', 'longlen')),
    ('bits', BITS, '10110', ('der',)),
    ('bits-empty', BITS, '', ('der',)),
    ('bits-seg', BITS, '1011001110001111000011111', STRF),
    ('utf8', UTF8, 'é€', ('der',)),
    ('exp-int', E(0, INT), 5, ALLF),
    ('exp-exp-octs', E(1, E(2, OCTS), 'A'), b'hi', ALLF + ('chunk',)),
    ('seq-od-full', SEQ_OD, {'a': 1, 'b': b'xy', 'c': True}, ALLF),
    ('seq-od-min', SEQ_OD, {'a': -1, 'c': False}, ALLF),
    ('seq-empty', ('SEQ', ()), {}, ALLF),
    ('set', SET_2, {'x': 3, 'y': True, 'z': None}, ALLF),
    ('set-min', SET_2, {'x': 3, 'z': None}, ALLF),
    ('seqof', ('SEQOF', INT), [1, 2, 300], ALLF),
    ('seqof-empty', ('SEQOF', INT), [], ALLF),
    ('setof-octs', ('SETOF', OCTS), [b'b', b'a', b'ab'], ALLF + ('indef-chunk',)),
    ('choice-i', CH, ('i', 9), ('der',)),
    ('choice-s', CH, ('s', b'zz'), ('der', 'chunk')),
    ('choice-q', CH, ('q', [True, False]), ALLF),
    ('exp-choice', E(7, CH), ('i', 1), ALLF),
    ('seq-any', SEQ_ANY, {'k': 1, 'any': bytes.fromhex('0403666f78')}, ALLF),
    ('seq-any-constructed', SEQ_ANY, {'k': 1, 'any': bytes.fromhex('3006020101040141')}, ('der', 'indef')),
    ('seq-any-indef-inner', SEQ_ANY, {'k': 1, 'any': bytes.fromhex('30800201010000')}, ('indef',)),
    ('seq-anyopt-absent', SEQ_ANYOPT, {'k': 2}, ('der', 'indef')),
    ('seq-anyopt', SEQ_ANYOPT, {'k': 2, 'any': bytes.fromhex('0500')}, ('der', 'indef')),
    ('any-top', ANY, bytes.fromhex('020105'), ('der',)),
    ('nested', NESTED, [{'a': 1, 'c': ('s', b'q')}, {'a': 2, 'c': ('q', [True])}], ALLF),
    ('seqof-seqof', ('SEQOF', ('SEQOF', NULL)), [[], [None], [None, None]], ALLF),
]

BY_NAME = {c[0]: c for c in CASES}


def encodings(names=None, forms=None):
    """yield (name, form, T, v, bytes)"""
    for name, T, v, fs in CASES:
        if names is not None and name not in names:
            continue
        for f in fs:
            if forms is not None and f not in forms:
                continue
            yield name, f, T, v, F.encode(f, T, v)


def schemaless_ok(T):
    """Can the encoding be decoded without a guiding type? (no IMPLICIT tags, no ANY)"""
    def bad(t):
        return (t[0] == 'TAG' and t[1] == 'I') or t[0] == 'ANY'
    return not U.contains(T, bad)
