"""C06 - truncated input is reported as insufficient data at every cut point.

Fault enumeration: every proper prefix of every corpus encoding, presented three ways.
"""
import io

from mc.checks import stream_corpus as SC
from mc.checks import codec_matrix as CM
from mc.core.runner import guarded, InternalError, Result, pyasn1_site, exc_text
from mc.env import streams as ST
from mc.model import x690 as M
from mc.model import forms as F
from mc.model import universe as U
from mc.bind import pyasn1_bind as B

from pyasn1 import error as pyerr
from pyasn1.codec.ber import decoder as ber_dec
from pyasn1.codec.cer import decoder as cer_dec
from pyasn1.codec.der import decoder as der_dec

PROPERTY = 'C06'
LEVEL = 'fault_enumeration'
RULE = ('For every reference-model encoding e (forms der/cer/indef/chunk/indef-chunk/nested/longlen) of the '
        'reader-state cover set plus universe slices LEAF, OF, CH, NEST and a stride of REC/TAGS with |e| <= 64 '
        '(quick) / 160 (thorough), and EVERY cut k in [0,|e|): e[:k] as bytes, as a seekable file-like stream, and '
        'as a non-blocking stream that delivers k octets, answers two empty polls and is then closed; x decoders '
        'that accept the complete e under the same guiding type x {with, without guiding type}. Non-trivial = '
        'k > 0; distinct = digest of (e, k, presentation, decoder, spec). Prefix-freeness is asserted with the '
        'reference reader for every (e, k).')
ASSUMPTIONS = [
    'inputs come from the reference encoder; a decoder is only given prefixes of encodings it accepts in full',
    'BER is prefix-free: asserted per (e,k) with the reference TLV parser',
    'CPython 3.12, PYTHONHASHSEED=0',
]
DECODERS = CM.DECODERS
STREAMERS = {'ber': ber_dec.StreamingDecoder, 'cer': cer_dec.StreamingDecoder, 'der': der_dec.StreamingDecoder}
UNDERRUN = pyerr.SubstrateUnderrunError


def corpus(tier):
    maxlen = 64 if tier == 'quick' else 160
    seen = set()
    for name, form, T, v, e in SC.encodings():
        if len(e) <= max(maxlen, 140) and e not in seen:
            seen.add(e)
            yield name, form, T, v, e
    plan = [('LEAF', 1), ('OF', 2), ('CH', 2), ('NEST', 1), ('REC', 23), ('TAGS', 11)]
    if tier != 'quick':
        plan = [('LEAF', 1), ('OF', 1), ('CH', 1), ('NEST', 1), ('REC', 7), ('TAGS', 5)]
    for sl, stride in plan:
        k = -1
        for T, v in U.SLICES[sl]('quick'):
            k += 1
            if k % stride:
                continue
            feats = CM.value_features(T, v)
            if 'real10' in feats:
                continue
            forms = ['der', 'indef'] + (['chunk'] if U.has_string(T) else [])
            for form in forms:
                try:
                    e = F.encode(form, T, v)
                except M.ModelError:
                    continue
                if len(e) > maxlen or e in seen:
                    continue
                if form != 'der' and e == F.encode('der', T, v):
                    continue
                seen.add(e)
                yield '%s#%d' % (sl, k), form, T, v, e


def classify(exc):
    if isinstance(exc, UNDERRUN):
        return None
    if isinstance(exc, pyerr.PyAsn1Error):
        return 'misclassified'
    return 'leak'


def one_shot(decname, data, spec):
    try:
        r = DECODERS[decname](data, asn1Spec=spec)
    except RecursionError as e:
        return 'leak', e
    except Exception as e:
        return classify(e), e
    return 'returned', r


def check_encoding(idx, name, form, T, v, e, tier, R):
    feats0 = CM.type_features(T) | {'form:' + form}
    for decname in F.ACCEPTS[form]:
        for use_spec in (True, False):
            if not use_spec and not SC.schemaless_ok(T):
                continue
            spec = B.to_spec(T) if use_spec else None
            # precondition: full e accepted by this decoder under this guiding type
            try:
                full = DECODERS[decname](e, asn1Spec=spec)
                if full[1] != b'' or full[0] is None:
                    raise ValueError('not fully consumed')
            except Exception:
                R.extra['precondition_skipped'] += 1
                continue
            for k in range(len(e)):
                prefix = e[:k]
                # prefix-freeness: the reference parser must not see a complete TLV
                try:
                    M.tlv_tree(prefix)
                    raise InternalError('prefix of a valid encoding parses as complete: %s' % prefix.hex())
                except M.ReadError:
                    pass
                where = cut_location(e, k)
                base = feats0 | {'dec:' + decname, 'spec' if use_spec else 'nospec', 'cut:' + where}
                rec = {'name': name, 'form': form, 'T': T, 'v': v, 'enc': e, 'k': k, 'dec': decname, 'spec': use_spec}
                # (i) bytes
                R.evaluations += 1
                if k:
                    R.nontrivial((e, k, 'bytes', decname, use_spec))
                verdict, info = one_shot(decname, prefix, spec)
                if verdict:
                    report(R, verdict, info, dict(rec, presentation='bytes'), base | {'as:bytes'}, idx)
                # (ii) seekable file-like stream (blocking semantics: short read at EOF, then b'')
                R.evaluations += 1
                if k:
                    R.nontrivial((e, k, 'stream', decname, use_spec))
                core = ST.ScheduledCore(prefix)
                verdict, info = one_shot(decname, ST.SeekableNB(core), spec)
                if verdict:
                    report(R, verdict, info, dict(rec, presentation='seekable'), base | {'as:seekable'}, idx)
                # (iii) non-blocking stream: k octets, two empty polls, then closed; seekable, and
                # non-seekable behind the library's caching wrapper
                for kind in ('seekable', 'nonseekable'):
                    R.evaluations += 1
                    if k:
                        R.nontrivial((e, k, 'nb', kind, decname, use_spec))
                    ev, partial = nonblocking(decname, prefix, spec, kind)
                    bad = judge_nb(ev)
                    if bad:
                        site = ev[-1][2] if ev and ev[-1][0] == 'exc' else 'streaming'
                        f3 = base | {'as:nonblocking', 'kind:' + kind}
                        if partial:
                            f3 = f3 | {'partial_read_at_eof'}
                        R.violation('nb.' + bad[0], dict(rec, presentation='nonblocking', kind=kind),
                                    bad[1] + ' | events=' + ' '.join(x[0] + (':' + x[1] if x[0] == 'exc' else '') for x in ev),
                                    'underrun, underrun, then EndOfStreamError', site, f3, idx)
                    else:
                        for f in base:
                            R.features[f] += 1


def report(R, verdict, info, rec, feats, idx):
    if verdict == 'returned':
        R.violation('returned_value', rec, 'returned %r' % (info,), 'SubstrateUnderrunError', 'decoder', feats, idx)
    else:
        R.violation(verdict + ':' + type(info).__name__, rec, exc_text(info), 'SubstrateUnderrunError',
                    pyasn1_site(info), feats, idx)


def nonblocking(decname, prefix, spec, kind='seekable'):
    """deliver all of prefix, then two pending polls while open, then end-of-stream."""
    core = ST.ScheduledCore(prefix, None, frontier=len(prefix), eof_pending=10 ** 6)
    if kind == 'nonseekable':
        # the library would wrap the raw stream itself; do the same and observe what the decoder is handed
        from pyasn1.codec import streaming as _streaming
        s = ST.ObservedSeekable(_streaming.CachingStreamWrapper(ST.NonSeekableNB(core)))
    else:
        s = ST.ObservedSeekable(ST.SeekableNB(core))
    events = []
    try:
        it = iter(STREAMERS[decname](s, asn1Spec=spec))
    except Exception as e:
        return [('exc', type(e).__name__, pyasn1_site(e))], False
    polls = 0
    for step in range(8):
        try:
            item = next(it)
        except StopIteration:
            events.append(('stop',))
            break
        except Exception as e:
            events.append(('exc', type(e).__name__, pyasn1_site(e), isinstance(e, pyerr.EndOfStreamError)))
            break
        if isinstance(item, UNDERRUN):
            events.append(('underrun',))
        elif item is None:
            events.append(('none',))
        else:
            events.append(('obj',))
        polls += 1
        if polls == 2:
            core.eof_pending = 0       # the stream is closed now
    else:
        events.append(('livelock',))
    # did the closed stream keep answering with a non-empty but short read (known finding K6)?
    return events, s.last_short


def judge_nb(ev):
    kinds = [e[0] for e in ev]
    if 'obj' in kinds:
        return ('returned_value', 'an object was yielded from a truncated stream')
    if 'none' in kinds:
        return ('bare_none', 'None yielded instead of an underrun object')
    if kinds[:2] != ['underrun', 'underrun']:
        last = ev[-1]
        if last[0] == 'exc':
            return ('early_error:' + last[1], '%s raised while the stream was still open' % last[1])
        return ('no_underrun', 'events %r' % kinds)
    last = ev[-1]
    if last[0] != 'exc':
        return ('no_eos_error', 'ended with %s' % last[0])
    if not last[3]:
        return ('wrong_eos_error:' + last[1], '%s raised after close' % last[1])
    return None


def cut_location(e, k):
    """Name of the reader state the cut falls into (for coverage and triage)."""
    # walk TLVs along the path to offset k
    pos = 0
    end = len(e)
    try:
        while True:
            if k == pos:
                return 'before_tag'
            first = e[pos]
            p = pos + 1
            if first & 0x1F == 0x1F:
                while True:
                    if k == p:
                        return 'in_long_tag'
                    b = e[p]
                    p += 1
                    if not b & 0x80:
                        break
            if k == p:
                return 'after_tag'
            lo = e[p]
            p += 1
            if lo & 0x80 and lo != 0x80:
                n = lo & 0x7F
                if k < p + n and k >= p:
                    return 'in_long_length'
                length = int.from_bytes(e[p:p + n], 'big')
                p += n
            elif lo == 0x80:
                length = None
            else:
                length = lo
            constructed = bool(first & 0x20)
            if k == p:
                if not constructed and first & 0xDF == 0x03:
                    return 'after_bitstring_length'
                return 'after_length'
            if not constructed:
                if k < p + length:
                    return 'in_primitive_value'
                pos = p + length
                continue
            # constructed: descend
            if length is None:
                # children until EOO
                pos = p
                # detect EOO position lazily: if at this point bytes are 00 00 treat as EOO
                if e[pos:pos + 2] == b'\x00\x00':
                    if k == pos + 1:
                        return 'inside_eoo'
                    pos += 2
                continue
            pos = p
            continue
    except IndexError:
        return 'other'


def shard(tier, i, n, seed):
    R = Result()
    idx = -1
    for name, form, T, v, e in corpus(tier):
        idx += 1
        if (idx + seed) % n != i:
            continue
        guarded(R, lambda: check_encoding(idx, name, form, T, v, e, tier, R), {'name': name, 'form': form, 'T': T, 'v': v, 'enc': e}, CM.type_features(T), idx, cpu_limit=180)
        R.extra['encodings'] += 1
        if idx % 211 == seed % 211:
            R.sample({'name': name, 'form': form, 'encoding': e.hex(), 'cuts': len(e)})
    return R


def replay(case):
    R = Result()
    T, e, k = case['T'], case['enc'], case['k']
    spec = B.to_spec(T) if case['spec'] else None
    prefix = e[:k]
    out = []
    p = case.get('presentation')
    if p == 'bytes':
        verdict, info = one_shot(case['dec'], prefix, spec)
    elif p == 'seekable':
        verdict, info = one_shot(case['dec'], ST.SeekableNB(ST.ScheduledCore(prefix)), spec)
    else:
        ev, partial = nonblocking(case['dec'], prefix, spec, case.get('kind', 'seekable'))
        bad = judge_nb(ev)
        return [{'clause': 'nb.' + bad[0], 'observed': bad[1], 'expected': 'underrun x2 then EndOfStreamError'}] if bad else []
    if verdict:
        out.append({'clause': verdict, 'observed': repr(info)[:200], 'expected': 'SubstrateUnderrunError'})
    return out
