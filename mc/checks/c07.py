"""C07 - decoding consumes exactly one encoding and preserves what follows (E1)."""
import io

from mc.checks import codec_matrix as CM
from mc.model import x690 as M
from mc.model import universe as U
from mc.bind import pyasn1_bind as B
from mc.env import streams as ST
from mc.core.runner import guarded, Result, pyasn1_site

from pyasn1.codec.ber import decoder as ber_dec
from pyasn1.codec.cer import decoder as cer_dec
from pyasn1.codec.der import decoder as der_dec
from pyasn1 import error as pyerr

PROPERTY = 'C07'
LEVEL = 'exploration'
RULE = ('E1 exhaustive product: every encoding (DER, CER, BER def/indef x chunk {0,2}) of every (type, value) of '
        'universe slices LEAF,TAGS(depth<=1 + depth-2 sample),REC,OF,CH,NEST x tails {empty, 00, 0000, 000000, FF, 0500, '
        'another encoding}; one-shot decode must return (value, tail), also from a raw stream (seekable or not) that hands out at most 16 octets per read followed by a 40-octet tail. Streaming clause: streams of n in {1,2,3} '
        'concatenated encodings presented as BytesIO, as another seekable stream and as a source that cannot seek (behind the library wrapper), one object per encoding and (seekable kinds) stream.tell() == end offset after each. '
        'Inputs are the reference-model encodings (decoder is the unit under test); distinct = digest of '
        '(bytes, tail, decoder).')
ASSUMPTIONS = [
    'inputs are produced by the reference encoder mc/model/x690.py (DER, CER and BER-form variants), so an '
    'encoder defect cannot mask a decoder verdict; pyasn1 encoder output is covered by C01/C02',
    'CPython 3.12, PYTHONHASHSEED=0',
]
TAILS = (b'', b'\x00', b'\x00\x00', b'\x00\x00\x00', b'\xff', b'\x05\x00', b'\x02\x01\x07')
LONG_TAIL = bytes(range(0x30, 0x58))


class Dribble(io.RawIOBase):
    """a raw stream that returns at most 16 octets per read(n), everything left for read(-1)"""

    def __init__(self, data, seekable):
        self._b = io.BytesIO(data)
        self._seekable = seekable

    def readable(self):
        return True

    def seekable(self):
        return self._seekable

    def seek(self, pos, whence=0):
        if not self._seekable:
            raise io.UnsupportedOperation('seek')
        return self._b.seek(pos, whence)

    def tell(self):
        if not self._seekable:
            raise io.UnsupportedOperation('tell')
        return self._b.tell()

    def read(self, n=-1):
        if n is None or n < 0:
            return self._b.read()
        return self._b.read(min(n, 16))

    def readinto(self, b):
        d = self._b.read(min(len(b), 16))
        b[:len(d)] = d
        return len(d)


class Untellable(object):
    def __init__(self, raw):
        self.raw = raw
        self.closed_by_library = False

    def read(self, n=-1):
        if self.closed_by_library:
            raise ValueError('I/O operation on closed file')
        return self.raw.read(n)

    def close(self):
        # the caller's stream: nobody but the caller closes it
        self.closed_by_library = True

    def seekable(self):
        return False

    def tell(self):
        return None


STREAMERS = {'ber': ber_dec.StreamingDecoder, 'cer': cer_dec.StreamingDecoder, 'der': der_dec.StreamingDecoder}


class IndefPolicy(M.Policy):
    name = 'BER-indef'
    canonical = False

    def indefinite(self, what):
        return True


class ChunkPolicy(M.Policy):
    name = 'BER-chunk2'
    canonical = False

    def split(self, kind, nocts):
        data = nocts - 1 if kind == 'BITS' else nocts
        if data <= 2:
            return None
        unit = 1 if kind == 'BITS' else 0
        segs = []
        while data > 0:
            segs.append(min(2, data) + unit)
            data -= 2
        return segs


class IndefChunkPolicy(ChunkPolicy):
    def indefinite(self, what):
        return True


def encodings(T, v, feats):
    out = []
    if 'real10' in feats:
        return out
    out.append(('der', 'der', M.der(T, v)))
    out.append(('cer', 'cer', M.cer(T, v)))
    out.append(('ber-indef', 'ber', M.Encoder(IndefPolicy()).enc(T, v)))
    if U.has_string(T):
        out.append(('ber-chunk', 'ber', M.Encoder(ChunkPolicy()).enc(T, v)))
        out.append(('ber-indef-chunk', 'ber', M.Encoder(IndefChunkPolicy()).enc(T, v)))
    return out


def accepts(decname, form):
    if decname == 'ber':
        return True
    if decname == 'cer':
        return form in ('der', 'cer')      # CER decoder is documented only for CER (and accepts DER forms)
    return form == 'der'


def check_case(idx, name, T, v, tier, R, others):
    feats = CM.case_features(T, v)
    spec = B.to_spec(T)
    encs = encodings(T, v, feats)
    for form, family, data in encs:
        if len(data) > 300 and name != 'BIG':
            pass
        for decname in ('ber', 'cer', 'der'):
            if not accepts(decname, form):
                continue
            if decname != 'ber' and form != decname:
                continue
            if decname == 'der' and 'any_nonder' in feats:
                continue      # an ANY value that is not itself DER is not a DER value
            tails = TAILS + (others[idx % len(others)],) if others else TAILS
            for t in tails:
                R.evaluations += 1
                R.nontrivial((data, t, decname))
                f2 = feats | {'form:' + form, 'dec:' + decname, 'tail:' + (t[:3].hex() or 'empty')}
                rec = {'slice': name, 'T': T, 'v': v, 'form': form, 'dec': decname, 'tail': t}
                d = CM.decode_to_abs(decname, data + t, T, spec)
                if d[0] == 'exc':
                    R.violation('decode.error', rec, CM.exc_text(d[1]) + ' on ' + (data + t)[:40].hex(),
                                '(%r, %s)' % (v, t.hex()), pyasn1_site(d[1]), f2, idx)
                elif d[0] == 'notvalue':
                    R.violation('decode.notvalue', rec, d[1], 'a value object', decname + '.decoder', f2, idx)
                elif d[2] != t:
                    R.violation('remainder', rec, 'remainder %s after %s' % (d[2].hex(), data[:40].hex()),
                                'remainder ' + t.hex(), decname + '.decoder', f2, idx)
                elif not M.values_equal(T, d[1], v):
                    R.violation('value', rec, '%r from %s' % (d[1], data[:40].hex()), repr(v),
                                decname + '.decoder', f2, idx)
                else:
                    for f in f2:
                        R.features[f] += 1
            # the one-shot call on a raw stream that hands out at most 16 octets per read(n) (read(-1) reads to
            # the end, as io.RawIOBase does): what follows the encoding comes back whole, however long it is
            if len(data) <= 16:
                for kind in ('dribble-seekable', 'dribble-nonseekable'):
                    t = LONG_TAIL
                    R.evaluations += 1
                    R.nontrivial((data, 'dribble', kind, decname))
                    f2 = feats | {'form:' + form, 'dec:' + decname, 'tail:long', 'kind:' + kind}
                    rec = {'slice': name, 'T': T, 'v': v, 'form': form, 'dec': decname, 'tail': t, 'kind': kind}
                    d = CM.decode_to_abs(decname, Dribble(data + t, kind.endswith('-seekable')), T, spec)
                    if d[0] == 'exc':
                        R.violation('decode.error', rec, CM.exc_text(d[1]) + ' on a dribbling stream holding ' + data.hex(),
                                    '(%r, 40-octet tail)' % (v,), pyasn1_site(d[1]), f2, idx)
                    elif d[0] == 'ok' and bytes(d[2]) != t:
                        R.violation('remainder', rec, 'remainder of %d octets after %s' % (len(d[2]), data.hex()),
                                    'the 40 octets that follow', decname + '.decoder', f2, idx)
    # streaming clause: n concatenated encodings of this value in different forms
    forms = [(f, fam, d) for f, fam, d in encs if len(d) <= 400]
    if not forms:
        return
    seqs = [[forms[0]], forms[:2], (forms + forms)[:3]]
    for seq in seqs:
        if not seq:
            continue
        for decname, kind in (('ber', 'bytesio'), ('der', 'bytesio'), ('ber', 'seekable'), ('ber', 'nonseekable'), ('der', 'nonseekable'),
                              ('ber', 'nonseekable/decoder-per-item')):
            if not all(accepts(decname, f) for f, _, _ in seq):
                continue
            if decname == 'der' and 'any_nonder' in feats:
                continue
            stream = b''.join(d for _, _, d in seq)
            R.evaluations += 1
            R.nontrivial((stream, 'stream', decname, kind))
            rec = {'slice': name, 'T': T, 'v': v, 'forms': [f for f, _, _ in seq], 'dec': decname, 'streaming': True, 'kind': kind}
            f2 = feats | {'streaming', 'dec:' + decname, 'n:%d' % len(seq), 'kind:' + kind}
            if kind == 'bytesio':
                bio = io.BytesIO(stream)
            elif kind == 'seekable':
                bio = ST.SeekableNB(ST.ScheduledCore(stream))
            else:
                # a source that cannot seek: the decoder puts its own seek-back wrapper around it, whose positions
                # are relative to its last mark (so tell() is not compared for this kind)
                bio = Untellable(ST.NonSeekableNB(ST.ScheduledCore(stream)))
            ends = []
            acc = 0
            for _, _, d in seq:
                acc += len(d)
                ends.append(acc)
            try:
                got = []
                if kind.endswith('decoder-per-item'):
                    # the same source handed to a new decoder for every item (header with one schema, body with
                    # another, in applications); a decoder that is done with must leave the source usable
                    for _ in seq:
                        it = iter(STREAMERS[decname](bio, asn1Spec=spec))
                        obj = next(it)
                        del it
                        if isinstance(obj, pyerr.SubstrateUnderrunError) or obj is None:
                            got.append(('underrun', None))
                            break
                        got.append((B.abs_of(obj, T, spec), None))
                    items = []
                else:
                    items = STREAMERS[decname](bio, asn1Spec=spec)
                for obj in items:
                    if isinstance(obj, pyerr.SubstrateUnderrunError) or obj is None:
                        got.append(('underrun', bio.tell()))
                        break
                    got.append((B.abs_of(obj, T, spec), bio.tell()))
                    if len(got) > len(seq) + 1:
                        break
            except B.NotAValue as e:
                R.violation('stream.notvalue', rec, str(e), 'value objects', decname + '.decoder', f2, idx)
                continue
            except Exception as e:
                R.violation('stream.error', rec, CM.exc_text(e), 'no error', pyasn1_site(e), f2, idx)
                continue
            if len(got) != len(seq):
                R.violation('stream.count', rec, '%d objects' % len(got), '%d objects' % len(seq),
                            decname + '.decoder', f2, idx)
                continue
            for (a, pos), end in zip(got, ends):
                if a == 'underrun' or not M.values_equal(T, a, v):
                    R.violation('stream.value', rec, repr(a), repr(v), decname + '.decoder', f2, idx)
                    break
                if pos is not None and pos != end:
                    R.violation('stream.position', rec, 'tell()=%d' % pos, 'tell()=%d' % end,
                                decname + '.decoder', f2, idx)
                    break
            else:
                for f in f2:
                    R.features[f] += 1


def tags_subset(tier):
    """LEAF + REC/OF/CH/NEST fully; TAGS at depth 1 plus every 7th deeper stack (quick)."""
    idx = -1
    for name in ('LEAF', 'TAGS', 'REC', 'OF', 'CH', 'NEST'):
        k = -1
        for T, v in U.SLICES[name](tier):
            k += 1
            if tier == 'quick':
                if name == 'TAGS' and k > 1500 and k % 7:
                    continue
                if name == 'REC' and k % 3:
                    continue
            idx += 1
            yield idx, name, T, v


def shard(tier, i, n, seed):
    R = Result()
    others = [M.der(('SEQ', (('a', ('INT',), 'R', None),)), {'a': 1}), M.cer(('SETOF', ('INT',)), [1, 2]),
              bytes.fromhex('0101ff'), bytes.fromhex('a080020100 0000'.replace(' ', ''))]
    for idx, name, T, v in tags_subset(tier):
        if (idx + seed) % n != i:
            continue
        def one():
            try:
                check_case(idx, name, T, v, tier, R, others)
            except M.ModelError:
                R.features['model_skipped'] += 1
        guarded(R, one, {'slice': name, 'T': T, 'v': v}, CM.type_features(T), idx, cpu_limit=180)
        R.features['slice:' + name] += 1
        if idx % 9973 == seed % 9973:
            R.sample({'T': M.show_type(T), 'v': v})
    return R


def replay(case):
    R = Result()
    check_case(0, case.get('slice', '?'), case['T'], case['v'], 'thorough', R, [])
    return R.violations
