"""C03 - encoder output equals the independent X.690 encoding (E1)."""
from mc.checks import codec_matrix as CM
from mc.model import x690 as M
from mc.model import universe as U
from mc.core.runner import guarded, Result, pyasn1_site

PROPERTY = 'C03'
LEVEL = 'exploration'
RULE = ('E1 exhaustive product: every (type, value) of universe slices LEAF,BIG,TAGS,REC,OF,CH,NEST; DER output '
        'compared byte-for-byte with the reference DER encoder (base-10 REAL by value); BER output in the four '
        'corners defMode x maxChunkSize {0,2} (+1000 for BIG) and CER output read back by the independent '
        'reader; CER output additionally checked against the canonical-form rules; DER and CER output is the same when the caller passes defMode / maxChunkSize options. Distinct = distinct digest '
        'of (T, v, codec config). Plus REAL sweep: 16 mantissas x sign x exponents -26..26 (thorough -70..70) '
        'x binEncBase {2, 8, 16, automatic}: BER output read by the reference reader, compared exactly.')
ASSUMPTIONS = [
    'reference model mc/model/x690.py (DER/CER encoder, BER reader, CER rule checker) is the trusted base; '
    'validated by selftest/test_model.py against hand-computed vectors and by generator/reader cross-checks',
    'base-10 REAL: X.690 editions differ on the NR form; compared by value only',
    'CPython 3.12, PYTHONHASHSEED=0',
]


def check_case(c, tier, R):
    # --- DER: byte-identical
    R.evaluations += 1
    R.nontrivial((c.T, M.freeze(c.v), 'der'))
    st = c.encode('der')
    feats = c.feats | {'enc:der'}
    if st[0] == 'exc':
        R.violation('encode.error', c.record(enc='der'), CM.exc_text(st[1]), 'encoding succeeds',
                    pyasn1_site(st[1]), feats, c.idx, CM.script_for(c, 'der'))
    else:
        if 'real10' in c.feats:
            ok, why = CM.model_reads(c.T, st[1], c.v)
            if not ok:
                R.violation('der.value', c.record(enc='der'), '%s: %s' % (st[1][:60].hex(), why), repr(c.v),
                            'der.encoder', feats, c.idx, CM.script_for(c, 'der'))
        else:
            ref = M.der(c.T, c.v)
            if st[1] != ref:
                ok, why = CM.model_reads(c.T, st[1], c.v)
                R.violation('der.bytes', c.record(enc='der'), st[1][:80].hex(), ref[:80].hex(), 'der.encoder',
                            feats | {'value_preserved' if ok else 'value_changed'} | c.kf('der', st[1]), c.idx,
                            CM.script_for(c, 'der'))
            else:
                for f in feats:
                    R.features[f] += 1
    # --- the canonical encoders fix length form and segmentation themselves: caller options cannot change the bytes
    if U.has_string(c.T) or c.T[0] not in ('BOOL', 'INT', 'NULL', 'OID', 'REAL', 'ENUM'):
        for codec, opts in (('der', {'defMode': False, 'maxChunkSize': 1}), ('der', {'maxChunkSize': 2}),
                            ('cer', {'defMode': True, 'maxChunkSize': 3})):
            plain = c.encode(codec)
            if plain[0] != 'ok':
                continue
            R.evaluations += 1
            R.nontrivial((c.T, M.freeze(c.v), codec, 'options', tuple(sorted(opts.items()))))
            st2 = c.encode(codec, **opts)
            feats = c.feats | {'enc:' + codec, 'cfg:caller_options'}
            if st2[0] == 'exc':
                R.violation('encode.error', c.record(enc=codec, opts=opts), CM.exc_text(st2[1]), 'encoding succeeds',
                            pyasn1_site(st2[1]), feats, c.idx)
            elif st2[1] != plain[1]:
                R.violation(codec + '.options_change_bytes', c.record(enc=codec, opts=opts), st2[1][:80].hex(), plain[1][:80].hex(),
                            codec + '.encoder', feats, c.idx)
            else:
                R.features['cfg:caller_options'] += 1
    # --- CER: value + canonical-form rules
    R.evaluations += 1
    R.nontrivial((c.T, M.freeze(c.v), 'cer'))
    st = c.encode('cer')
    feats = c.feats | {'enc:cer'}
    if st[0] == 'exc':
        R.violation('encode.error', c.record(enc='cer'), CM.exc_text(st[1]), 'encoding succeeds',
                    pyasn1_site(st[1]), feats, c.idx, CM.script_for(c, 'cer'))
    else:
        ok, why = CM.model_reads(c.T, st[1], c.v)
        if not ok:
            R.violation('cer.value', c.record(enc='cer'), '%s: %s' % (st[1][:60].hex(), why), repr(c.v),
                        'cer.encoder', feats | c.kf('cer', st[1]), c.idx, CM.script_for(c, 'cer'))
        else:
            bad = M.cer_rules(c.T, st[1])
            if bad:
                R.violation('cer.rules', c.record(enc='cer'), '%s: %s' % (st[1][:60].hex(), '; '.join(bad[:3])),
                            'canonical form', 'cer.encoder', feats | {'rule:' + bad[0].split(' at ')[0][:40]} | c.kf('cer', st[1]),
                            c.idx, CM.script_for(c, 'cer'))
            else:
                for f in feats:
                    R.features[f] += 1
    # --- BER corners: value
    chunks = (0, 2) + ((1000,) if c.slice == 'BIG' else ())
    if not U.has_string(c.T):
        chunks = (0,)
    for defMode in (True, False):
        for ch in chunks:
            R.evaluations += 1
            R.nontrivial((c.T, M.freeze(c.v), 'ber', defMode, ch))
            feats = c.feats | {'enc:ber', 'cfg:def' if defMode else 'cfg:indef'} | ({'cfg:chunked'} if ch else set())
            st = c.encode('ber', defMode=defMode, maxChunkSize=ch)
            opts = ', defMode=%r, maxChunkSize=%r' % (defMode, ch)
            if st[0] == 'exc':
                R.violation('encode.error', c.record(enc='ber', defMode=defMode, chunk=ch), CM.exc_text(st[1]),
                            'encoding succeeds', pyasn1_site(st[1]), feats, c.idx, CM.script_for(c, 'ber', opts))
                continue
            ok, why = CM.model_reads(c.T, st[1], c.v)
            if not ok:
                R.violation('ber.value', c.record(enc='ber', defMode=defMode, chunk=ch),
                            '%s: %s' % (st[1][:60].hex(), why), repr(c.v), 'ber.encoder',
                            feats | c.kf('ber', st[1], defMode, ch), c.idx,
                            CM.script_for(c, 'ber', opts))
            else:
                for f in feats:
                    R.features[f] += 1


def real_sweep(tier, R):
    """REAL mantissa/exponent normalisation in every encoding base, read by the reference reader (exact)"""
    T = ('REAL',)
    for m, e, base, st in CM.real_base_sweep(tier):
        R.evaluations += 1
        R.nontrivial(('realbase', m, e, base))
        rec = {'slice': 'REALBASE', 'T': T, 'v': (m, 2, e), 'binEncBase': base}
        feats = {'real', 'enc:ber', 'cfg:binEncBase%s' % base, 'exp:neg' if e < 0 else 'exp:nonneg'}
        if st[0] == 'exc':
            R.violation('encode.error', rec, CM.exc_text(st[1]), 'encoding succeeds', pyasn1_site(st[1]), feats, 0)
            continue
        try:
            got = M.read(T, st[1])
            ok = M.real_value(got) == M.real_value((m, 2, e))
            why = 'reference reader yields %r' % (got,)
        except M.ReadError as ex:
            ok, why = False, 'reference reader rejects: %s' % ex
        if not ok:
            R.violation('ber.value', rec, '%s: %s' % (st[1].hex(), why), repr((m, 2, e)), 'ber.encoder', feats, 0)
        else:
            for f in feats:
                R.features[f] += 1


def shard(tier, i, n, seed):
    R = Result()
    if i == seed % n:
        guarded(R, lambda: real_sweep(tier, R), {'slice': 'REALBASE'}, {'real'}, 0)
    for idx, name, T, v in CM.iter_cases(tier, i, n, seed):
        try:
            c = CM.Case(idx, name, T, v)
        except Exception as e:
            R.violation('build.error', {'slice': name, 'T': T, 'v': v}, CM.exc_text(e),
                        'value object can be built', pyasn1_site(e), CM.case_features(T, v), idx)
            continue
        guarded(R, lambda: check_case(c, tier, R), c.record(), c.feats, c.idx, cpu_limit=180)
        R.features['slice:' + name] += 1
        if idx % 9973 == seed % 9973:
            R.sample({'T': M.show_type(T), 'v': v, 'reference_der': M.der(T, v).hex()
                      if 'real10' not in c.feats else None})
    return R


def replay(case):
    R = Result()
    if case.get('slice') == 'REALBASE':
        real_sweep('thorough', R)
        return [x for x in R.violations if x.get('case', {}).get('v') == case.get('v')] or R.violations
    c = CM.Case(0, case.get('slice', '?'), case['T'], case['v'])
    check_case(c, 'thorough', R)
    return R.violations
