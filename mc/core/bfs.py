"""E3: explicit-state breadth-first search over the real transition function.

A state is the operation history reaching it; build(hist) creates a fresh real object and
replays the history (live pyasn1 objects do not deep-copy reliably).  States are merged on
canon(state) = (reference-model state, raw structural shape of the real object), which is
deliberately over-fine: merged states have the same futures.

A Subject provides:
  name
  fresh()                         -> (obj, model)
  enabled(model)                  -> list of operation labels (str), simplest first
  apply(label, obj, model)        -> (obj2, model2, outcome)   outcome = ('ok', result) | ('err', excname) | ('leak', excname, site)
  expect(label, model)            -> (model2, expected)        expected = ('ok', value|ANY) | ('err',)
  check(obj, model)               -> list of (clause, observed, expected)   invariant on every state
  canon(obj, model)               -> hashable
"""
import collections

ANY = ('<any>',)


class Replayed(object):
    __slots__ = ('obj', 'model')


def bfs(subject, depth, on_transition, on_state=None, max_states=None):
    """Explore all histories up to `depth`.  Returns dict with states, transitions, max_depth.

    on_transition(hist, label, obj, model, outcome, expected, problems) is called for every
    transition (problems = list of (clause, observed, expected) found on it).
    """
    obj, model = subject.fresh()
    seen = {subject.canon(obj, model)}
    frontier = collections.deque([()])
    stats = {'states': 1, 'transitions': 0, 'max_depth': 0, 'capped': 0, 'outcomes': set()}
    if on_state:
        on_state((), obj, model)
    while frontier:
        hist = frontier.popleft()
        if len(hist) >= depth:
            continue
        # the enabled set depends only on the model state
        obj0, model0 = replay(subject, hist)
        labels = subject.enabled(model0)
        for label in labels:
            obj1, model1 = replay(subject, hist)
            model2, expected = subject.expect(label, model1)
            obj2, outcome = subject.apply(label, obj1, model1)
            stats['transitions'] += 1
            stats['outcomes'].add((label.split('(')[0], outcome[0]))
            problems = subject.judge(label, obj1, obj2, model1, model2, outcome, expected)
            on_transition(hist, label, obj2, model2, outcome, expected, problems)
            if problems:
                # do not expand states reached through a violating transition: their model
                # state is no longer meaningful
                continue
            key = subject.canon(obj2, model2)
            if key not in seen:
                if max_states and len(seen) >= max_states:
                    stats['capped'] = 1
                    continue
                seen.add(key)
                stats['states'] += 1
                nh = hist + (label,)
                stats['max_depth'] = max(stats['max_depth'], len(nh))
                frontier.append(nh)
                if on_state:
                    on_state(nh, obj2, model2)
    return stats


def replay(subject, hist):
    obj, model = subject.fresh()
    for label in hist:
        model2, expected = subject.expect(label, model)
        obj, outcome = subject.apply(label, obj, model)
        model = model2
    return obj, model
