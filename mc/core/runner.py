"""Check runner: shards a check over worker processes, merges results, classifies
violations against known_findings.json, writes evidence and replay files, sets the exit code.

A check module provides:

  PROPERTY   'C01'
  LEVEL      'exploration' | 'fault_enumeration' | 'model_checking'
  RULE       text: how cases are enumerated and what makes one non-trivial
  ASSUMPTIONS list[str]
  shard(tier, i, n, seed) -> Result      (runs in a forked worker)
  replay(case) -> list[violation dicts]  (re-executes one recorded case; no explorer)
  optional finish(merged, tier) -> None  (parent-side post-processing / extra coverage keys)
"""
import argparse
import collections
import hashlib
import importlib
import json
import multiprocessing
import os
import subprocess
import sys
import time
import traceback

ROOT = os.path.dirname(os.path.dirname(os.path.dirname(os.path.abspath(__file__))))
EVIDENCE_DIR = os.path.join(ROOT, 'evidence')
REPLAY_DIR = os.path.join(ROOT, 'replays')
MAX_KEEP_PER_CLASS = 3


class InternalError(Exception):
    """the harness or the reference model is inconsistent with itself: never a verdict about pyasn1"""


class CaseTimeout(BaseException):
    """raised by the per-case CPU watchdog (BaseException: library code that catches Exception cannot swallow it)"""


_HANGS = [0]


def _case_timeout(signum, frame):
    raise CaseTimeout()


def guarded(R, fn, rec, feats, idx, cpu_limit=None):
    """Run one case; any exception other than InternalError escaping a case on the checked tree is a
    violation (the unchanged tree produces none), reported with the innermost pyasn1 frame as site.
    cpu_limit: seconds of process CPU time (ITIMER_VIRTUAL, so machine load cannot trip it) after which the case is
    reported as not terminating; after two such cases the worker runs no further cases (the check has failed)."""
    import signal
    if cpu_limit and _HANGS[0] >= 2:
        R.extra['cases_not_run_after_hangs'] += 1
        return
    if cpu_limit:
        signal.signal(signal.SIGVTALRM, _case_timeout)
        signal.setitimer(signal.ITIMER_VIRTUAL, cpu_limit)
    try:
        fn()
    except CaseTimeout:
        _HANGS[0] += 1
        R.violation('case.hang', rec, 'no termination within %s s of CPU time' % cpu_limit, 'the case terminates', 'harness', feats, idx)
    except InternalError:
        raise
    except RecursionError as e:
        R.violation('case.exception:RecursionError', rec, exc_text(e), 'no exception escapes the case', pyasn1_site(e), feats, idx)
    except Exception as e:
        R.violation('case.exception:' + type(e).__name__, rec, exc_text(e), 'no exception escapes the case', pyasn1_site(e), feats, idx)
    finally:
        if cpu_limit:
            signal.setitimer(signal.ITIMER_VIRTUAL, 0)


def digest64(obj):
    h = hashlib.blake2b(repr(obj).encode('utf-8', 'backslashreplace'), digest_size=8).digest()
    return int.from_bytes(h, 'big')


def pyasn1_site(exc):
    """innermost pyasn1 frame of an exception: 'file.py:function'"""
    tb = exc.__traceback__
    site = None
    while tb is not None:
        fn = tb.tb_frame.f_code.co_filename
        if '/pyasn1/' in fn:
            site = '%s:%s' % (fn.split('/pyasn1/', 1)[1], tb.tb_frame.f_code.co_name)
        tb = tb.tb_next
    return site or 'harness'


def exc_text(exc):
    s = '%s: %s' % (type(exc).__name__, exc)
    return s if len(s) < 300 else s[:300] + '...'


class Result(object):
    """Accumulator filled by a shard; merged by the parent."""

    def __init__(self):
        self.evaluations = 0
        self.features = collections.Counter()
        self.digests = set()
        self.violations = []          # kept records (bounded per class)
        self.vcount = collections.Counter()   # class key -> count of all violations
        self.samples = []
        self.extra = collections.Counter()    # numeric extras summed across shards
        self.extra_max = {}                   # numeric extras maxed across shards
        self.sets = collections.defaultdict(set)   # named sets unioned across shards
        self.notes = []

    def nontrivial(self, key):
        self.digests.add(key if isinstance(key, int) else digest64(key))

    def sample(self, obj, limit=3):
        if len(self.samples) < limit:
            self.samples.append(obj)

    def violation(self, clause, case, observed, expected, site='', features=(), index=0,
                  script=None):
        feats = tuple(sorted(set(features)))
        key = (clause, site, feats)
        self.vcount[key] += 1
        kept = [v for v in self.violations if v['_key'] == key]
        rec = {'_key': key, 'clause': clause, 'case': case, 'observed': observed,
               'expected': expected, 'site': site, 'features': list(feats), 'index': index}
        if script:
            rec['script'] = script
        if len(kept) < MAX_KEEP_PER_CLASS:
            self.violations.append(rec)

    def merge(self, other):
        self.evaluations += other.evaluations
        self.features.update(other.features)
        self.digests |= other.digests
        self.vcount.update(other.vcount)
        self.violations.extend(other.violations)
        for s in other.samples:
            if len(self.samples) < 6:
                self.samples.append(s)
        self.extra.update(other.extra)
        for k, v in other.extra_max.items():
            self.extra_max[k] = max(self.extra_max.get(k, v), v)
        for k, v in other.sets.items():
            self.sets[k] |= v
        self.notes.extend(other.notes)


def _shard_entry(args):
    modname, tier, i, n, seed = args
    try:
        mod = importlib.import_module(modname)
        r = mod.shard(tier, i, n, seed)
        return ('ok', r)
    except BaseException:
        return ('err', traceback.format_exc())


def load_known():
    path = os.path.join(ROOT, 'known_findings.json')
    if not os.path.exists(path):
        return []
    with open(path) as f:
        return json.load(f)['findings']


def match_finding(entry, prop, v):
    if entry.get('status') != 'open':
        return False
    if prop not in entry.get('properties', []):
        return False
    for m in entry.get('match', []):
        if m.get('property') not in (None, prop):
            continue
        if m.get('clause') is not None and m['clause'] != v['clause']:
            continue
        if m.get('site') is not None and m['site'] != v['site']:
            continue
        feats = set(v['features'])
        if not set(m.get('require', [])) <= feats:
            continue
        if set(m.get('forbid', [])) & feats:
            continue
        return True
    return False


def validate_evidence(path):
    """Validate with jsonschema from the tooling venv when available."""
    schema = '/root/.vp/EVIDENCE.schema.json'
    if not os.path.exists(schema):
        schema = os.path.join(ROOT, 'tools', 'EVIDENCE.schema.json')
    if not os.path.exists(schema):
        return True, 'schema not found; skipped'
    code = ('import json,sys,jsonschema;'
            'jsonschema.validate(json.load(open(sys.argv[1])), json.load(open(sys.argv[2])))')
    for py in ('python3-vt', '/opt/veriftools/pyvenv/bin/python'):
        try:
            p = subprocess.run([py, '-c', code, path, schema], capture_output=True, text=True, timeout=60)
        except (OSError, subprocess.TimeoutExpired):
            continue
        if p.returncode == 0:
            return True, 'validated'
        return False, p.stderr[-800:]
    return True, 'no validator available; skipped'


def jsonable(x):
    from mc.model.x690 import to_json
    return to_json(x)


def run(modname, argv=None):
    ap = argparse.ArgumentParser()
    ap.add_argument('--tier', default=os.environ.get('VERIF_TIER', 'quick'), choices=['quick', 'thorough'])
    ap.add_argument('--workers', type=int, default=int(os.environ.get('VERIF_WORKERS', '0')))
    ap.add_argument('--replay', default=None)
    args = ap.parse_args(argv)
    seed = int(os.environ.get('VERIF_SEED', '0') or 0)
    mod = importlib.import_module(modname)
    prop = mod.PROPERTY

    if args.replay:
        with open(args.replay) as f:
            rec = json.load(f)
        from mc.model.x690 import from_json
        vs = mod.replay(from_json(rec['case']))
        if vs:
            for v in vs:
                print('REPRODUCED property=%s clause=%s observed=%s expected=%s' % (
                    prop, v['clause'], v['observed'], v['expected']))
            return 1
        print('not reproduced')
        return 0

    t0 = time.time()
    n = args.workers or min(16, os.cpu_count() or 1)
    n = getattr(mod, 'MAX_WORKERS', n) if getattr(mod, 'MAX_WORKERS', None) else n
    ctx = multiprocessing.get_context('fork')
    merged = Result()
    if n == 1:
        outs = [_shard_entry((modname, args.tier, 0, 1, seed))]
    else:
        with ctx.Pool(n) as pool:
            outs = pool.map(_shard_entry, [(modname, args.tier, i, n, seed) for i in range(n)], chunksize=1)
    for status, r in outs:
        if status != 'ok':
            sys.stderr.write('INTERNAL ERROR in shard:\n%s\n' % r)
            return 2
        merged.merge(r)
    if hasattr(mod, 'finish'):
        mod.finish(merged, args.tier)

    dump = os.environ.get('VERIF_DUMP')
    if dump:
        with open(dump, 'w') as f:
            for v in merged.violations:
                f.write(json.dumps({'clause': v['clause'], 'site': v['site'], 'features': v['features'],
                                    'observed': str(v['observed'])[:500], 'expected': str(v['expected'])[:300],
                                    'case': jsonable(v['case']), 'n': merged.vcount[v['_key']]}, default=str) + '\n')
    # classify violations
    known = load_known()
    os.makedirs(os.path.join(REPLAY_DIR, prop), exist_ok=True)
    classes = {}
    for v in sorted(merged.violations, key=lambda v: (v['index'], repr(v['case']))):
        classes.setdefault(v['_key'], v)
    absorbed = collections.Counter()
    new_classes = []
    for key, v in classes.items():
        hit = None
        for e in known:
            if match_finding(e, prop, v):
                hit = e
                break
        if hit is not None:
            absorbed[hit['id']] += merged.vcount[key]
        else:
            new_classes.append((key, v))
    for e in known:
        if absorbed.get(e['id']):
            print('KNOWN-FINDING: property=%s %s [%s; %d explored cases]' % (
                prop, e['title'], e['id'], absorbed[e['id']]))
    nviol = 0
    groups = {}
    for key, v in new_classes:
        g = groups.setdefault((v['clause'], v['site']), {'first': v, 'count': 0, 'feats': None})
        g['count'] += merged.vcount[key]
        fs = set(v['features'])
        g['feats'] = fs if g['feats'] is None else (g['feats'] & fs)
        if (v['index'], repr(v['case'])) < (g['first']['index'], repr(g['first']['case'])):
            g['first'] = v
    for (clause, site), g in sorted(groups.items()):
        v = g['first']
        nviol += g['count']
        name = '%016x.json' % digest64((clause, site, repr(v['case'])))
        path = os.path.join(REPLAY_DIR, prop, name)
        rec = {'property': prop, 'clause': v['clause'], 'site': v['site'], 'features': v['features'],
               'common_features_of_group': sorted(g['feats']),
               'observed': jsonable(v['observed']), 'expected': jsonable(v['expected']),
               'case': jsonable(v['case']), 'count_in_group': g['count']}
        if 'script' in v:
            rec['script'] = v['script']
        with open(path, 'w') as f:
            json.dump(rec, f, indent=1, default=str)
        print('VIOLATION property=%s replay=%s' % (prop, path))
        sys.stdout.write('  clause=%s site=%s count=%d\n  first: features=%s\n  common features=%s\n'
                         '  observed=%s\n  expected=%s\n' % (
                             v['clause'], v['site'], g['count'], ','.join(v['features']),
                             ','.join(sorted(g['feats'])),
                             str(v['observed'])[:400], str(v['expected'])[:300]))

    wall = time.time() - t0
    cov = {
        'evaluations': int(merged.evaluations),
        'distinct_nontrivial': len(merged.digests),
        'rule': mod.RULE,
        'samples': [jsonable(s) for s in merged.samples] or ['(none)'],
        'exhaustive': not merged.extra.get('capped', 0),
        'features': dict(sorted(merged.features.items())),
        'known_findings_absorbed': dict(absorbed),
        'workers': n,
    }
    for k, v in merged.extra.items():
        cov[k] = int(v)
    for k, v in merged.extra_max.items():
        cov[k] = v
    for k, v in merged.sets.items():
        cov[k] = sorted(v)[:200]
        cov[k + '_count'] = len(v)
    if merged.notes:
        cov['notes'] = sorted(set(merged.notes))[:50]
    ev = {
        'property_id': prop, 'tier': args.tier, 'seed': seed, 'level': mod.LEVEL,
        'coverage': cov, 'assumptions': list(mod.ASSUMPTIONS), 'wall_s': round(wall, 2),
        'violations': int(nviol),
    }
    os.makedirs(EVIDENCE_DIR, exist_ok=True)
    epath = os.path.join(EVIDENCE_DIR, prop + '.json')
    with open(epath, 'w') as f:
        json.dump(ev, f, indent=1, default=str)
    ok, msg = validate_evidence(epath)
    if not ok:
        sys.stderr.write('INTERNAL ERROR: evidence does not validate: %s\n' % msg)
        return 2
    print('%s %s: evaluations=%d distinct_nontrivial=%d violations=%d known=%d wall=%.1fs' % (
        prop, args.tier, merged.evaluations, len(merged.digests), nviol, sum(absorbed.values()), wall))
    return 1 if nviol else 0
