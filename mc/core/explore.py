"""E2: deviation-bounded stateless choice exploration (CHESS-style iterative bounding).

A run is a function run(chooser) -> observation.  chooser(n, label) returns an int in
[0, n); 0 is the default answer.  explore() enumerates EVERY execution whose choice
vector has at most `bound` non-zero entries; runs always go to completion.
"""


class ReplayDivergence(Exception):
    """A replayed prefix met a choice point with a different arity than recorded."""


class Chooser(object):
    __slots__ = ('prefix', 'trace', 'arity')

    def __init__(self, prefix=(), arity=None):
        self.prefix = prefix
        self.arity = arity      # recorded arities for the prefix (divergence check)
        self.trace = []         # (n, chosen, label)

    def __call__(self, n, label=None):
        i = len(self.trace)
        if i < len(self.prefix):
            c = self.prefix[i]
            if self.arity is not None and self.arity[i] != n:
                raise ReplayDivergence('choice point %d: arity %d, recorded %d (%r)' % (i, n, self.arity[i], label))
            if c >= n:
                raise ReplayDivergence('choice point %d: choice %d out of range %d (%r)' % (i, c, n, label))
        else:
            c = 0
        self.trace.append((n, c, label))
        return c

    @property
    def choices(self):
        return [t[1] for t in self.trace]

    def deviations(self):
        return [(i, t[1], t[2]) for i, t in enumerate(self.trace) if t[1]]


def explore(run, bound, on_execution):
    """Enumerate all executions with <= bound deviations.

    on_execution(chooser, observation) is called once per execution.
    Returns (#executions, max #choice points seen).
    """
    stack = [((), ())]
    nexec = 0
    maxpoints = 0
    while stack:
        prefix, arity = stack.pop()
        ch = Chooser(prefix, arity)
        obs = run(ch)
        nexec += 1
        trace = ch.trace
        if len(trace) > maxpoints:
            maxpoints = len(trace)
        on_execution(ch, obs)
        dev = 0
        for c in prefix:
            if c:
                dev += 1
        if dev >= bound:
            continue
        base = [t[1] for t in trace]
        ar = [t[0] for t in trace]
        for i in range(len(prefix), len(trace)):
            n = trace[i][0]
            for alt in range(1, n):
                stack.append((tuple(base[:i]) + (alt,), tuple(ar[:i + 1])))
    return nexec, maxpoints


def count_only(run, bound):
    n = [0]

    def cb(ch, obs):
        n[0] += 1
    explore(run, bound, cb)
    return n[0]
