"""Emit stand-alone pyasn1-only Python source for a (type, value) case."""
from mc.model import x690 as M

HEADER = ('from pyasn1.type import univ, char, useful, tag, namedtype, namedval, constraint\n'
          'from pyasn1.codec.ber import encoder as ber_enc, decoder as ber_dec\n'
          'from pyasn1.codec.cer import encoder as cer_enc, decoder as cer_dec\n'
          'from pyasn1.codec.der import encoder as der_enc, decoder as der_dec\n')

CLS = {'U': 'tag.tagClassUniversal', 'A': 'tag.tagClassApplication',
       'C': 'tag.tagClassContext', 'P': 'tag.tagClassPrivate'}
LEAF = {'BOOL': 'univ.Boolean()', 'INT': 'univ.Integer()', 'BITS': 'univ.BitString()',
        'OCTS': 'univ.OctetString()', 'NULL': 'univ.Null()', 'OID': 'univ.ObjectIdentifier()',
        'REAL': 'univ.Real()', 'ANY': 'univ.Any()'}


def spec_src(T):
    k = T[0]
    if k in LEAF:
        return LEAF[k]
    if k == 'ENUM':
        return 'univ.Enumerated(namedValues=namedval.NamedValues(%s))' % ', '.join(repr(x) for x in T[1])
    if k == 'STR':
        mod = 'useful' if T[1] in ('ObjectDescriptor', 'GeneralizedTime', 'UTCTime') else 'char'
        return '%s.%s()' % (mod, T[1])
    if k == 'CON':
        from mc.model import constraints as C
        return '%s.subtype(subtypeSpec=%s)' % (spec_src(T[2]), C.to_src(T[1]))
    if k == 'TAG':
        kw = 'implicitTag' if T[1] == 'I' else 'explicitTag'
        return '%s.subtype(%s=tag.Tag(%s, tag.tagFormatSimple, %d))' % (spec_src(T[4]), kw, CLS[T[2]], T[3])
    if k in ('SEQ', 'SET'):
        parts = []
        for name, ft, opt, dflt in T[1]:
            if opt == 'R':
                parts.append('namedtype.NamedType(%r, %s)' % (name, spec_src(ft)))
            elif opt == 'O':
                parts.append('namedtype.OptionalNamedType(%r, %s)' % (name, spec_src(ft)))
            else:
                parts.append('namedtype.DefaultedNamedType(%r, %s)' % (name, value_src(ft, M.thaw(dflt))))
        return 'univ.%s(componentType=namedtype.NamedTypes(%s))' % (
            'Sequence' if k == 'SEQ' else 'Set', ', '.join(parts))
    if k in ('SEQOF', 'SETOF'):
        return 'univ.%s(componentType=%s)' % ('SequenceOf' if k == 'SEQOF' else 'SetOf', spec_src(T[1]))
    if k == 'CHOICE':
        return 'univ.Choice(componentType=namedtype.NamedTypes(%s))' % ', '.join(
            'namedtype.NamedType(%r, %s)' % (n, spec_src(t)) for n, t in T[1])
    raise ValueError(T)


def value_src(T, v, spec=None):
    """Python expression building the value object."""
    from mc.bind.pyasn1_bind import py_scalar
    spec = spec or spec_src(T)
    B = M.base_of(T)
    k = B[0]
    if k in ('SEQ', 'SET'):
        s = '%s.clone()' % spec
        calls = []
        ft = {f[0]: f[1] for f in B[1]}
        for name, cv in v.items():
            calls.append('.setComponentByName(%r, %s)' % (name, value_src(ft[name], cv)))
        if not calls:
            return '%s.clear()' % s
        return s + ''.join(calls)
    if k in ('SEQOF', 'SETOF'):
        return '(lambda o: (o.clear(), o.extend([%s]), o)[2])(%s.clone())' % (
            ', '.join(value_src(B[1], x) for x in v), spec)
    if k == 'CHOICE':
        alt = dict(B[1])[v[0]]
        return '%s.clone().setComponentByName(%r, %s)' % (spec, v[0], value_src(alt, v[1]))
    return '%s.clone(%r)' % (spec, py_scalar(B, v))


def roundtrip_script(T, v, codec='ber', opts=''):
    return (HEADER + 'spec = %s\nvalue = %s\n' % (spec_src(T), value_src(T, v, 'spec')) +
            'sub = %s_enc.encode(value%s)\nprint(sub.hex())\n' % (codec, opts) +
            'print(%s_dec.decode(sub, asn1Spec=spec))\n' % codec)
