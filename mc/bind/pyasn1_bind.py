"""Binding between reference-model descriptors/values and real pyasn1 objects.

Only public constructors are used to build; only non-mutating accessors to read.
"""
import os
import sys

import pyasn1
from pyasn1.type import univ, char, useful, tag, namedtype, namedval, constraint, opentype
from pyasn1.type import base as _base

from mc.model import x690 as M

assert os.path.realpath(pyasn1.__file__).startswith('/repo/') or os.environ.get('MC_ALLOW_OTHER_REPO'), \
    'pyasn1 must be imported from /repo (got %s)' % pyasn1.__file__

CLS = {'U': tag.tagClassUniversal, 'A': tag.tagClassApplication,
       'C': tag.tagClassContext, 'P': tag.tagClassPrivate}

LEAF_CLASSES = {
    'BOOL': univ.Boolean, 'INT': univ.Integer, 'BITS': univ.BitString, 'OCTS': univ.OctetString,
    'NULL': univ.Null, 'OID': univ.ObjectIdentifier, 'REAL': univ.Real, 'ANY': univ.Any,
}


def str_class(kind):
    return getattr(char, kind, None) or getattr(useful, kind)


class NotAValue(Exception):
    def __init__(self, path, why=''):
        Exception.__init__(self, '%s: %s' % ('/'.join(map(str, path)) or '.', why))
        self.path = path
        self.why = why


_spec_cache = {}


def to_spec(T, cache=True):
    if cache:
        try:
            return _spec_cache[T]
        except KeyError:
            pass
        except TypeError:
            cache = False
    s = _to_spec(T, cache)
    if cache:
        _spec_cache[T] = s
    return s


def make_constraint(cd):
    from mc.model import constraints as C
    return C.to_pyasn1(cd)


def _to_spec(T, cache):
    k = T[0]
    if k in LEAF_CLASSES:
        return LEAF_CLASSES[k]()
    if k == 'ENUM':
        return univ.Enumerated(namedValues=namedval.NamedValues(*T[1]))
    if k == 'STR':
        return str_class(T[1])()
    if k == 'CON':
        inner = to_spec(T[2], cache)
        return inner.subtype(subtypeSpec=make_constraint(T[1]))
    if k == 'TAG':
        _, mode, cls, num, inner = T
        s = to_spec(inner, cache)
        t = tag.Tag(CLS[cls], tag.tagFormatSimple, num)
        if mode == 'I':
            return s.subtype(implicitTag=t)
        return s.subtype(explicitTag=t)
    if k in ('SEQ', 'SET'):
        nts = []
        for name, ft, opt, dflt in T[1]:
            fs = to_spec(ft, cache)
            if opt == 'R':
                nts.append(namedtype.NamedType(name, fs))
            elif opt == 'O':
                nts.append(namedtype.OptionalNamedType(name, fs))
            else:
                nts.append(namedtype.DefaultedNamedType(name, build(ft, M.thaw(dflt), fs)))
        cls = univ.Sequence if k == 'SEQ' else univ.Set
        return cls(componentType=namedtype.NamedTypes(*nts))
    if k in ('SEQOF', 'SETOF'):
        cls = univ.SequenceOf if k == 'SEQOF' else univ.SetOf
        return cls(componentType=to_spec(T[1], cache))
    if k == 'CHOICE':
        return univ.Choice(componentType=namedtype.NamedTypes(
            *[namedtype.NamedType(n, to_spec(t, cache)) for n, t in T[1]]))
    raise ValueError('unknown descriptor %r' % (T,))


def py_scalar(T, v):
    """The Python value handed to a pyasn1 scalar constructor for abstract value v."""
    k = T[0]
    if k == 'BOOL':
        return 1 if v else 0
    if k in ('INT', 'ENUM'):
        return v
    if k == 'BITS':
        return tuple(int(c) for c in v)
    if k in ('OCTS', 'ANY'):
        return bytes(v)
    if k == 'NULL':
        return ''
    if k == 'OID':
        return tuple(v)
    if k == 'REAL':
        if v == 'inf':
            return float('inf')
        if v == '-inf':
            return float('-inf')
        return tuple(v)
    if k == 'STR':
        return v
    raise ValueError(k)


def field_spec(spec, idx):
    return spec.componentType[idx].asn1Object


def build(T, v, spec=None, order=None, explicit_defaults=True):
    """Build a pyasn1 value object of type T holding abstract value v.

    order: optional permutation of component names / member indices (construction route)
    explicit_defaults: assign DEFAULT components even when equal to the default
    """
    if spec is None:
        spec = to_spec(T)
    k = T[0]
    if k in ('TAG', 'CON'):
        return build(T[4] if k == 'TAG' else T[2], v, spec, order, explicit_defaults)
    if k in ('SEQ', 'SET'):
        obj = spec.clone()
        fields = {f[0]: (i, f) for i, f in enumerate(T[1])}
        names = [n for n in (order or [f[0] for f in T[1]]) if n in v]
        assigned = False
        for name in names:
            i, (_, ft, opt, dflt) = fields[name]
            if opt == 'D' and not explicit_defaults and M.values_equal(ft, v[name], M.thaw(dflt)):
                continue
            obj.setComponentByName(name, build(ft, v[name], field_spec(spec, i),
                                               explicit_defaults=explicit_defaults))
            assigned = True
        if not assigned and not obj.isValue:
            obj.clear()
        return obj
    if k in ('SEQOF', 'SETOF'):
        obj = spec.clone()
        obj.clear()
        idxs = order if order is not None else range(len(v))
        if order is None:
            for x in v:
                obj.append(build(T[1], x, spec.componentType, explicit_defaults=explicit_defaults))
        else:
            for i in idxs:
                obj.append(build(T[1], v[i], spec.componentType, explicit_defaults=explicit_defaults))
        return obj
    if k == 'CHOICE':
        obj = spec.clone()
        name, av = v
        alts = [a[0] for a in T[1]]
        i = alts.index(name)
        obj.setComponentByName(name, build(T[1][i][1], av, field_spec(spec, i),
                                           explicit_defaults=explicit_defaults))
        return obj
    return spec.clone(py_scalar(T, v))


def _real_abs(obj):
    from fractions import Fraction
    if obj.isPlusInf:
        return 'inf'
    if obj.isMinusInf:
        return '-inf'
    m, b, e = obj[0], obj[1], obj[2]
    if isinstance(m, float):
        m = Fraction(m)
        if m.denominator == 1:
            m = int(m)
    return (m, int(b), int(e))


def abs_of(obj, T, spec=None, path=(), check_type=True):
    """Abstract value of a pyasn1 object, read with non-mutating accessors."""
    if obj is None:
        raise NotAValue(path, 'None')
    if not isinstance(obj, _base.Asn1Item):
        raise NotAValue(path, 'not an ASN.1 item: %r' % (type(obj),))
    if spec is None:
        spec = to_spec(T)
    if check_type:
        if obj.__class__ is not spec.__class__:
            raise NotAValue(path, 'class %s instead of %s' % (obj.__class__.__name__, spec.__class__.__name__))
        if not (obj.tagSet == spec.tagSet):
            raise NotAValue(path, 'tagSet %r instead of %r' % (obj.tagSet, spec.tagSet))
    if not obj.isValue:
        raise NotAValue(path, 'schema object (isValue false)')
    k = T[0]
    while k in ('TAG', 'CON'):
        T = T[4] if k == 'TAG' else T[2]
        k = T[0]
    if k == 'BOOL':
        return bool(int(obj))
    if k in ('INT', 'ENUM'):
        return int(obj)
    if k == 'BITS':
        n = len(obj)
        return bin(int(obj.asInteger()))[2:].zfill(n) if n else ''
    if k in ('OCTS', 'ANY'):
        return obj.asOctets()
    if k == 'NULL':
        o = obj.asOctets()
        if o != b'':
            raise NotAValue(path, 'NULL holding %r' % (o,))
        return None
    if k == 'OID':
        return tuple(int(a) for a in obj.asTuple())
    if k == 'REAL':
        return _real_abs(obj)
    if k == 'STR':
        return str(obj)
    if k in ('SEQ', 'SET'):
        out = {}
        for i, (name, ft, opt, dflt) in enumerate(T[1]):
            c = obj.getComponentByPosition(i, default=None, instantiate=False)
            if c is None:
                if opt == 'O':
                    continue
                if opt == 'D':
                    out[name] = M.thaw(dflt)
                    continue
                raise NotAValue(path + (name,), 'required component missing')
            out[name] = abs_of(c, ft, field_spec(spec, i), path + (name,), check_type)
        return out
    if k in ('SEQOF', 'SETOF'):
        out = []
        for i in range(len(obj)):
            c = obj.getComponentByPosition(i, default=None, instantiate=False)
            if c is None:
                raise NotAValue(path + (i,), 'hole in SEQUENCE OF/SET OF')
            out.append(abs_of(c, T[1], spec.componentType, path + (i,), check_type))
        return out
    if k == 'CHOICE':
        name = obj.getName()
        c = obj.getComponent()
        alts = [a[0] for a in T[1]]
        if name not in alts:
            raise NotAValue(path, 'unknown alternative %r' % (name,))
        i = alts.index(name)
        return (name, abs_of(c, T[1][i][1], field_spec(spec, i), path + (name,), check_type))
    raise ValueError(k)


values_equal = M.values_equal


def py_tree(T, v):
    """Plain-Python tree for the value+schema encoder path (C17)."""
    k = T[0]
    if k in ('TAG', 'CON'):
        return py_tree(T[4] if k == 'TAG' else T[2], v)
    if k in ('SEQ', 'SET'):
        ft = {f[0]: f[1] for f in T[1]}
        return {n: py_tree(ft[n], x) for n, x in v.items()}
    if k in ('SEQOF', 'SETOF'):
        return [py_tree(T[1], x) for x in v]
    if k == 'CHOICE':
        return {v[0]: py_tree(dict(T[1])[v[0]], v[1])}
    if k == 'BITS':
        return v
    if k == 'BOOL':
        return bool(v)
    return py_scalar(T, v)


# ---------------------------------------------------------------------------
# raw structural digest (no method calls on pyasn1 objects)
# ---------------------------------------------------------------------------

def _shape_ordered(obj, depth, seen):
    if isinstance(obj, dict):
        return ('odict',) + tuple((repr(k), _shape_ordered(x, depth + 1, seen)) for k, x in obj.items())
    if isinstance(obj, (tuple, list)):
        return (type(obj).__name__,) + tuple(_shape_ordered(x, depth + 1, seen) for x in obj)
    if isinstance(obj, _base.Asn1Item) and depth <= 12:
        d = object.__getattribute__(obj, '__dict__')
        cv = d.get('_componentValues')
        return (shape(obj, depth, seen), _shape_ordered(cv, depth + 1, seen) if isinstance(cv, (dict, list, tuple)) else None)
    return shape(obj, depth, seen)


def shape(obj, depth=0, seen=None, keep_order=False):
    """Raw __dict__-walking digest of a pyasn1 object used for state hashing and purity
    snapshots.  Never calls a pyasn1 method (isinstance/type only).  keep_order: dicts are digested in their
    insertion order (the library iterates its position -> member dicts, so two objects that differ only there
    have different futures and must not be merged by an explicit-state search)."""
    if seen is None:
        seen = {}
    if keep_order:
        return _shape_ordered(obj, depth, seen)
    if depth > 12:
        return '...'
    if obj is None or isinstance(obj, (bool, int, float, str, bytes)):
        return obj
    if obj is _base.noValue:
        return '<noValue>'
    if isinstance(obj, (tuple, list)):
        return (type(obj).__name__,) + tuple(shape(x, depth + 1, seen) for x in obj)
    if isinstance(obj, dict):
        try:
            items = sorted(obj.items(), key=lambda kv: repr(kv[0]))
        except Exception:
            items = list(obj.items())
        return ('dict',) + tuple((repr(k), shape(x, depth + 1, seen)) for k, x in items)
    if isinstance(obj, _base.Asn1Item):
        d = object.__getattribute__(obj, '__dict__')
        fields = []
        for name in sorted(d):
            if name == '_readOnly':
                # the initializers clone()/subtype() start from: the tag set recorded there must stay the type's
                ro = d[name]
                fields.append(('_readOnly.tagSet', repr(ro.get('tagSet')) if isinstance(ro, dict) else repr(type(ro))))
                continue
            if name in ('componentType', 'subtypeSpec', 'sizeSpec', 'namedValues',
                        '_tagMap', 'encoding'):
                continue
            val = d[name]
            if name == 'tagSet':
                fields.append((name, repr(val)))
            elif name == '_dynamicNames' and not isinstance(val, int):
                fields.append((name, tuple(sorted(val._keyToIdxMap.items()))))
            else:
                fields.append((name, shape(val, depth + 1, seen)))
        return (type(obj).__name__,) + tuple(fields)
    return repr(type(obj))
