"""Set-theoretic reference evaluator for subtype constraints + binding to pyasn1 constraint objects.

Constraint descriptors (hashable tuples):
  ('SV', v1, v2, ...)        single values
  ('VR', lo, hi)             value range (inclusive)
  ('SZ', lo, hi)             size range (inclusive) of len(value)
  ('PA', c1, c2, ...)        permitted alphabet
  ('CS', c)                  contained subtype (the values admitted by c)
  ('WC', (field, 'P'|'A'), ...)   WITH COMPONENTS presence / absence
  ('AND', c...), ('OR', c...), ('NOT', c...)
"""


def admits_raw(cd, x):
    """x is the Python-level value the constraint sees (int, str/bytes, dict of present fields,
    or a sized container)."""
    k = cd[0]
    if k == 'SV':
        return x in cd[1:]
    if k == 'VR':
        return cd[1] <= x <= cd[2]
    if k == 'SZ':
        return cd[1] <= len(x) <= cd[2]
    if k == 'PA':
        return set(x) <= set(cd[1:])
    if k == 'CS':
        return admits_raw(cd[1], x)
    if k == 'WC':
        for entry in cd[1:]:
            field, pa = entry[0], entry[1]
            present = x.get(field) is not None
            if pa == 'P' and not present:
                return False
            if pa == 'A' and present:
                return False
            if len(entry) > 2 and not admits_raw(entry[2], x[field]):
                return False        # (field, 'P', c): present AND its value admitted by c
        return True
    if k == 'AND':
        return all(admits_raw(c, x) for c in cd[1:])
    if k == 'OR':
        return any(admits_raw(c, x) for c in cd[1:])
    if k == 'NOT':
        # every operand is excluded: the complement of the union of the operands
        return not any(admits_raw(c, x) for c in cd[1:])
    raise ValueError(cd)


def view(T, v):
    """The Python-level view of abstract value v of type T that constraints apply to."""
    from . import x690 as M
    B = M.base_of(T)
    k = B[0]
    if k in ('SEQ', 'SET'):
        # presence is what is sent: a DEFAULT component holding its default value is absent
        out = dict(v)
        for name, ft, opt, dflt in B[1]:
            if opt == 'D' and name in out and M.values_equal(ft, out[name], M.thaw(dflt)):
                del out[name]
        return out
    if k == 'CHOICE':
        return {v[0]: v[1]}
    if k == 'BOOL':
        return 1 if v else 0
    return v


def admits(cd, T, v):
    try:
        return admits_raw(cd, view(T, v))
    except TypeError:
        return False


def to_pyasn1(cd):
    from pyasn1.type import constraint as C
    k = cd[0]
    if k == 'SV':
        return C.SingleValueConstraint(*cd[1:])
    if k == 'VR':
        return C.ValueRangeConstraint(cd[1], cd[2])
    if k == 'SZ':
        return C.ValueSizeConstraint(cd[1], cd[2])
    if k == 'PA':
        return C.PermittedAlphabetConstraint(*cd[1:])
    if k == 'CS':
        return C.ContainedSubtypeConstraint(to_pyasn1(cd[1]))
    if k == 'WC':
        def one(entry):
            f, pa = entry[0], entry[1]
            c = C.ComponentPresentConstraint() if pa == 'P' else C.ComponentAbsentConstraint()
            if len(entry) > 2:
                # WITH COMPONENTS {..., f (c) PRESENT}
                c = C.ConstraintsIntersection(c, to_pyasn1(entry[2]))
            return (f, c)
        return C.WithComponentsConstraint(*[one(e) for e in cd[1:]])
    if k == 'AND':
        return C.ConstraintsIntersection(*[to_pyasn1(c) for c in cd[1:]])
    if k == 'OR':
        return C.ConstraintsUnion(*[to_pyasn1(c) for c in cd[1:]])
    if k == 'NOT':
        return C.ConstraintsExclusion(*[to_pyasn1(c) for c in cd[1:]])
    raise ValueError(cd)


def to_src(cd):
    k = cd[0]
    if k == 'SV':
        return 'constraint.SingleValueConstraint(%s)' % ', '.join(repr(x) for x in cd[1:])
    if k == 'VR':
        return 'constraint.ValueRangeConstraint(%r, %r)' % (cd[1], cd[2])
    if k == 'SZ':
        return 'constraint.ValueSizeConstraint(%r, %r)' % (cd[1], cd[2])
    if k == 'PA':
        return 'constraint.PermittedAlphabetConstraint(%s)' % ', '.join(repr(x) for x in cd[1:])
    if k == 'CS':
        return 'constraint.ContainedSubtypeConstraint(%s)' % to_src(cd[1])
    if k == 'WC':
        return 'constraint.WithComponentsConstraint(%s)' % ', '.join(
            '(%r, constraint.Component%sConstraint())' % (e[0], 'Present' if e[1] == 'P' else 'Absent') for e in cd[1:])
    name = {'AND': 'ConstraintsIntersection', 'OR': 'ConstraintsUnion', 'NOT': 'ConstraintsExclusion'}[k]
    return 'constraint.%s(%s)' % (name, ', '.join(to_src(c) for c in cd[1:]))


def show(cd):
    k = cd[0]
    if k in ('AND', 'OR'):
        return '(' + (' ^ ' if k == 'AND' else ' | ').join(show(c) for c in cd[1:]) + ')'
    if k == 'NOT':
        return 'ALL EXCEPT ' + (show(cd[1]) if len(cd) == 2 else '(' + ' | '.join(show(c) for c in cd[1:]) + ')')
    if k == 'CS':
        return 'INCLUDES ' + show(cd[1])
    if k == 'WC':
        return 'WITH COMPONENTS {%s}' % ', '.join('%s %s%s' % (e[0], ('(' + show(e[2]) + ') ') if len(e) > 2 else '', 'PRESENT' if e[1] == 'P' else 'ABSENT') for e in cd[1:])
    return '%s(%s)' % (k, ','.join(repr(x) for x in cd[1:]))
