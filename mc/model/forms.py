"""Named BER form policies used to produce decoder inputs from the reference encoder."""
from . import x690 as M


class IndefPolicy(M.Policy):
    name = 'BER-indef'
    canonical = False

    def indefinite(self, what):
        return True


class ChunkPolicy(M.Policy):
    """Strings longer than `size` data octets are segmented into `size`-octet primitive segments."""
    name = 'BER-chunk'
    canonical = False
    size = 2

    def split(self, kind, nocts):
        data = nocts - 1 if kind == 'BITS' else nocts
        if data <= self.size:
            return None
        unit = 1 if kind == 'BITS' else 0
        segs = []
        while data > 0:
            segs.append(min(self.size, data) + unit)
            data -= self.size
        return segs


class IndefChunkPolicy(ChunkPolicy):
    name = 'BER-indef-chunk'

    def indefinite(self, what):
        return True


class NestedChunkPolicy(M.Policy):
    """First octet in a nested constructed segment, rest primitive (needs >= 2 data octets)."""
    name = 'BER-nested'
    canonical = False

    def split(self, kind, nocts):
        data = nocts - 1 if kind == 'BITS' else nocts
        if data < 2:
            return None
        unit = 1 if kind == 'BITS' else 0
        return [[1 + unit], data - 1 + unit]


class LongLenPolicy(M.Policy):
    name = 'BER-longlen'
    canonical = False

    def length_form(self, n):
        return 1, True


FORMS = {
    'der': lambda T, v: M.der(T, v),
    'cer': lambda T, v: M.cer(T, v),
    'indef': lambda T, v: M.Encoder(IndefPolicy()).enc(T, v),
    'chunk': lambda T, v: M.Encoder(ChunkPolicy()).enc(T, v),
    'indef-chunk': lambda T, v: M.Encoder(IndefChunkPolicy()).enc(T, v),
    'nested': lambda T, v: M.Encoder(NestedChunkPolicy()).enc(T, v),
    'longlen': lambda T, v: M.Encoder(LongLenPolicy()).enc(T, v),
}

# which decoders are expected to accept a form
ACCEPTS = {
    'der': ('ber', 'cer', 'der'),
    'cer': ('ber', 'cer'),
    'indef': ('ber',), 'chunk': ('ber',), 'indef-chunk': ('ber',), 'nested': ('ber',), 'longlen': ('ber',),
}


def encode(form, T, v):
    return FORMS[form](T, v)
