"""Emulation of KNOWN, RECORDED encoder defects of pyasn1 (see known_findings.json).

Used only to classify a violation: a wrong encoder output is attributed to a known finding iff it
is byte-identical to the output this module predicts for that finding.  Anything else stays a
VIOLATION.  Flags:

  K1  explicit tag over a primitive whose encoder cannot use indefinite length (BOOLEAN, INTEGER,
      ENUMERATED, NULL, OBJECT IDENTIFIER, REAL) in indefinite-length mode / CER: definite header
      followed by a stray end-of-octets marker
  K2  CER/DER: a present OPTIONAL component whose constructed encoding has empty contents is omitted
  K3  CER/DER SET ordering compares tag lists starting at the innermost tag
  K4  CER BIT STRING segments carry 1000 data octets (1001 contents octets); primitive up to 1001
  K11 an ABSENT OPTIONAL component whose type is a SEQUENCE/SET without mandatory members is encoded as an
      empty SEQUENCE/SET (the placeholder instantiated while iterating is a value as soon as nothing is required)
"""
from . import x690 as M

ALL = ('K1', 'K2', 'K4', 'K11')
NO_INDEF = ('BOOL', 'INT', 'ENUM', 'NULL', 'OID', 'REAL')


class PyBER(M.Policy):
    """pyasn1 BER encoder forms for (defMode, maxChunkSize)"""
    canonical = False

    def __init__(self, defMode=True, chunk=0):
        self.defMode = defMode
        self.chunk = chunk

    def indefinite(self, what):
        return not self.defMode

    def split(self, kind, nocts):
        if not self.chunk:
            return None
        data = nocts - 1 if kind == 'BITS' else nocts
        if data <= self.chunk:
            return None
        unit = 1 if kind == 'BITS' else 0
        segs = []
        while data > 0:
            segs.append(min(self.chunk, data) + unit)
            data -= self.chunk
        return segs

    def true_octet(self):
        return 1

    def set_order(self, tagged):
        return [i for _, i in tagged]

    def setof_order(self, encs):
        return list(range(len(encs)))


class PyCER(M.CERPolicy):
    def __init__(self, flags):
        self.flags = flags

    def split(self, kind, nocts):
        if kind == 'BITS' and 'K4' in self.flags:
            data = nocts - 1
            if data <= 1000:
                return None
            segs = []
            while data > 0:
                segs.append(min(1000, data) + 1)
                data -= 1000
            return segs
        return M.CERPolicy.split(self, kind, nocts)


def inner_key(T, v, static):
    """pyasn1 SET sort key: (class bits, number) list from the innermost tag outwards"""
    T = M.strip_con(T)
    if T[0] == 'CHOICE':
        if static:
            return min(inner_key(a, None, True) for _, a in T[1])
        return inner_key(dict(T[1])[v[0]], v[1], False)
    return [(M.CLS_BITS[c], n) for c, n in reversed(M.tag_stack(T))]


def all_optional_record(T):
    b = M.base_of(T)
    return b[0] in ('SEQ', 'SET') and all(f[2] != 'R' for f in b[1])


def py_data_equals(ft, cv, dv, native, member=False):
    """is plain Python data for cv recognised as equal to the default value OBJECT holding dv?  A scalar is turned
    into a value object first (so it is); records and CHOICEs never are; lists are compared member by member with
    == in stored order, where NULL members, (m, b, e) tuples and the native encoder's bytes / dotted text for
    UTF8String / OBJECT IDENTIFIER do not compare equal"""
    b = M.base_of(ft)
    if b[0] in ('SEQ', 'SET', 'CHOICE'):
        return False
    if b[0] in ('SEQOF', 'SETOF'):
        return len(cv) == len(dv) and all(py_data_equals(b[1], x, y, native, True) for x, y in zip(cv, dv))
    if not member:
        return M.values_equal(ft, cv, dv)
    if b[0] == 'NULL':
        return False
    if native and (b[0] == 'OID' or b == ('STR', 'UTF8String')):
        return False
    if b[0] == 'REAL' and isinstance(cv, tuple):
        return False        # a (mantissa, base, exponent) tuple is compared with the default's float
    return M.values_equal(ft, cv, dv)


class EmuEncoder(M.Encoder):
    def __init__(self, policy, flags, codec):
        M.Encoder.__init__(self, policy)
        self.flags = flags
        self.codec = codec
        self.ine = False        # pyasn1's 'ifNotEmpty' option as seen by the element being encoded

    def k2(self):
        return 'K2' in self.flags and self.codec in ('cer', 'der')

    def explicit(self, tag, inner, content):
        if 'K1' in self.flags and self.p.indefinite('explicit'):
            b = M.strip_con(inner)
            while b[0] == 'TAG':
                b = M.strip_con(b[4])
            if b[0] in NO_INDEF:
                cls, num = tag
                return M.ident_octets(cls, True, num) + M.length_octets(len(content)) + content + M.EOO
        return M.Encoder.explicit(self, tag, inner, content)

    def enc(self, T, v, outer=None):
        T0 = T
        k = T[0]
        if k == 'CON':
            return self.enc(T[2], v, outer)
        if k == 'TAG':
            _, mode, cls, num, inner = T
            me = outer or (cls, num)
            if mode == 'E' or M.is_untagged(inner):
                content = self.enc(inner, v)
                if self.k2() and self.ine and content == b'' and M.base_of(inner)[0] in ('SEQ', 'SET', 'SEQOF', 'SETOF'):
                    return b''       # the base encoding was dropped before any tag was added
                return self.explicit(me, inner, content)
            return self.enc(inner, v, me)
        if k in ('SEQ', 'SET'):
            tag = outer or M.univ_tag(T)
            entry_ine = self.ine
            mem = []
            for name, ft, opt, dflt in T[1]:
                if name not in v:
                    if 'K11' in self.flags and opt == 'O' and all_optional_record(ft):
                        cv = {}
                    else:
                        continue
                else:
                    cv = v[name]
                if opt == 'D' and M.values_equal(ft, cv, M.thaw(dflt)):
                    # K9 (value-plus-schema path only): plain Python data never compares equal to a NULL or
                    # constructed default object, so such a component is encoded
                    if not ('K9' in self.flags and not py_data_equals(ft, cv, M.thaw(dflt), 'K9n' in self.flags)):
                        continue
                if self.k2():
                    self.ine = (opt == 'O')      # options.update(ifNotEmpty=namedType.isOptional)
                e = self.enc(ft, cv)
                if k == 'SET' and 'K3' in self.flags and self.codec in ('cer', 'der'):
                    key = inner_key(ft, cv, self.codec == 'cer')
                elif k == 'SET':
                    key = self.sort_tag(ft, cv, True)
                else:
                    key = None
                mem.append((key, e))
            # NB: pyasn1 mutates the shared options dict, so the flag set for the LAST component stays
            # visible to the caller's later siblings only through its own update; at this level the
            # emptiness test uses the value the element was entered with
            self.ine = entry_ine
            if k == 'SET':
                if 'K3' in self.flags and self.codec in ('cer', 'der'):
                    order = sorted(range(len(mem)), key=lambda i: mem[i][0])
                else:
                    order = self.p.set_order([(mem[i][0], i) for i in range(len(mem))])
                content = b''.join(mem[i][1] for i in order)
            else:
                content = b''.join(e for _, e in mem)
            if self.k2() and entry_ine and content == b'':
                return b''
            return self.tlv(tag, True, content)
        if k in ('SEQOF', 'SETOF'):
            tag = outer or M.univ_tag(T)
            encs = [self.enc(T[1], x) for x in v]        # members inherit the flag
            if k == 'SETOF':
                order = self.p.setof_order(encs)
                encs = [encs[i] for i in order]
            content = b''.join(encs)
            if self.k2() and self.ine and content == b'':
                return b''
            return self.tlv(tag, True, content)
        return M.Encoder.enc(self, T0, v, outer)


def predict(T, v, codec, flags, defMode=True, chunk=0):
    if codec == 'ber':
        pol = PyBER(defMode, chunk)
    elif codec == 'cer':
        pol = PyCER(flags)
    else:
        pol = M.Policy()
    return EmuEncoder(pol, set(flags), codec).enc(T, v)


def classify(T, v, codec, observed, defMode=True, chunk=0, ALL=ALL):
    """-> set of 'kf:Kn' features explaining `observed`, empty when unexplained"""
    try:
        full = predict(T, v, codec, ALL, defMode, chunk)
    except (M.ModelError, Exception):
        return set()
    if full != observed:
        return set()
    out = set()
    for f in ALL:
        rest = [x for x in ALL if x != f]
        try:
            if predict(T, v, codec, rest, defMode, chunk) != full:
                out.add('kf:' + f)
        except Exception:
            pass
    return out
