"""Emulation of KNOWN, RECORDED encoder defects of pyasn1 (see known_findings.json).

Used only to classify a violation: a wrong encoder output is attributed to a known finding iff it
is byte-identical to the output this module predicts for that finding.  Anything else stays a
VIOLATION.  Flags:

  K1  explicit tag over a primitive whose encoder cannot use indefinite length (BOOLEAN, INTEGER,
      ENUMERATED, NULL, OBJECT IDENTIFIER, REAL) in indefinite-length mode / CER: definite header
      followed by a stray end-of-octets marker
  K2  CER/DER: a present OPTIONAL component whose constructed encoding has empty contents is omitted
  K3  CER/DER SET ordering compares tag lists starting at the innermost tag
  K4  CER BIT STRING segments carry 1000 data octets (1001 contents octets); primitive up to 1001
"""
from . import x690 as M

ALL = ('K1', 'K2', 'K3', 'K4')
NO_INDEF = ('BOOL', 'INT', 'ENUM', 'NULL', 'OID', 'REAL')


class PyBER(M.Policy):
    """pyasn1 BER encoder forms for (defMode, maxChunkSize)"""
    canonical = False

    def __init__(self, defMode=True, chunk=0):
        self.defMode = defMode
        self.chunk = chunk

    def indefinite(self, what):
        return not self.defMode

    def split(self, kind, nocts):
        if not self.chunk:
            return None
        data = nocts - 1 if kind == 'BITS' else nocts
        if data <= self.chunk:
            return None
        unit = 1 if kind == 'BITS' else 0
        segs = []
        while data > 0:
            segs.append(min(self.chunk, data) + unit)
            data -= self.chunk
        return segs

    def true_octet(self):
        return 1

    def set_order(self, tagged):
        return [i for _, i in tagged]

    def setof_order(self, encs):
        return list(range(len(encs)))


class PyCER(M.CERPolicy):
    def __init__(self, flags):
        self.flags = flags

    def split(self, kind, nocts):
        if kind == 'BITS' and 'K4' in self.flags:
            data = nocts - 1
            if data <= 1000:
                return None
            segs = []
            while data > 0:
                segs.append(min(1000, data) + 1)
                data -= 1000
            return segs
        return M.CERPolicy.split(self, kind, nocts)


def inner_key(T, v, static):
    """pyasn1 SET sort key: (class bits, number) list from the innermost tag outwards"""
    T = M.strip_con(T)
    if T[0] == 'CHOICE':
        if static:
            return min(inner_key(a, None, True) for _, a in T[1])
        return inner_key(dict(T[1])[v[0]], v[1], False)
    return [(M.CLS_BITS[c], n) for c, n in reversed(M.tag_stack(T))]


class EmuEncoder(M.Encoder):
    def __init__(self, policy, flags, codec):
        M.Encoder.__init__(self, policy)
        self.flags = flags
        self.codec = codec

    def explicit(self, tag, inner, content):
        if 'K1' in self.flags and self.p.indefinite('explicit'):
            b = M.strip_con(inner)
            while b[0] == 'TAG' and b[1] == 'I':
                b = M.strip_con(b[4])
            if b[0] in NO_INDEF or (b[0] == 'TAG' and self._k1_inner_definite(b)):
                cls, num = tag
                return M.ident_octets(cls, True, num) + M.length_octets(len(content)) + content + M.EOO
        return M.Encoder.explicit(self, tag, inner, content)

    def _k1_inner_definite(self, b):
        # explicit over explicit over a non-indefinite primitive: every wrapper is affected
        while b[0] == 'TAG':
            b = M.strip_con(b[4])
        return b[0] in NO_INDEF

    def omit_member(self, ft, opt, cv, encoding):
        if 'K2' in self.flags and self.codec in ('cer', 'der') and opt == 'O':
            try:
                node = M.parse_node(encoding, 0, len(encoding))
            except M.ReadError:
                return False
            if node.constructed and not node.content and M.base_of(ft)[0] in ('SEQ', 'SET', 'SEQOF', 'SETOF'):
                return True
        return False

    def enc(self, T, v, outer=None):
        if T[0] == 'SET' and 'K3' in self.flags and self.codec in ('cer', 'der'):
            tag = outer or M.univ_tag(T)
            mem = []
            for name, ft, opt, dflt in T[1]:
                if name not in v:
                    continue
                cv = v[name]
                if opt == 'D' and M.values_equal(ft, cv, M.thaw(dflt)):
                    continue
                e = self.enc(ft, cv)
                if self.omit_member(ft, opt, cv, e):
                    continue
                mem.append((inner_key(ft, cv, self.codec == 'cer'), e))
            order = sorted(range(len(mem)), key=lambda i: mem[i][0])
            return self.tlv(tag, True, b''.join(mem[i][1] for i in order))
        return M.Encoder.enc(self, T, v, outer)


def predict(T, v, codec, flags, defMode=True, chunk=0):
    if codec == 'ber':
        pol = PyBER(defMode, chunk)
    elif codec == 'cer':
        pol = PyCER(flags)
    else:
        pol = M.Policy()
    return EmuEncoder(pol, set(flags), codec).enc(T, v)


def classify(T, v, codec, observed, defMode=True, chunk=0):
    """-> set of 'kf:Kn' features explaining `observed`, empty when unexplained"""
    try:
        full = predict(T, v, codec, ALL, defMode, chunk)
    except (M.ModelError, Exception):
        return set()
    if full != observed:
        return set()
    out = set()
    for f in ALL:
        rest = [x for x in ALL if x != f]
        try:
            if predict(T, v, codec, rest, defMode, chunk) != full:
                out.add('kf:' + f)
        except Exception:
            pass
    return out
