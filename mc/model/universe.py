"""Bounded universe of (type, value) cases, enumerated deterministically, simplest first.

Every function is a generator of (T, v) pairs.  `tier` is 'quick' or 'thorough'.
All generated types pass M.legal(); all values pass M.welltyped().
"""
import itertools

from . import x690 as M

INT = ('INT',)
BOOL = ('BOOL',)
OCTS = ('OCTS',)
BITS = ('BITS',)
NULL = ('NULL',)
OID = ('OID',)
REAL = ('REAL',)
ANY = ('ANY',)
ENUM = ('ENUM', (('a', 0), ('b', 1), ('c', -5), ('d', 300)))


def STR(kind):
    return ('STR', kind)


UTF8 = STR('UTF8String')


def tagged(mode, cls, num, T):
    return ('TAG', mode, cls, num, T)


def I(num, T, cls='C'):
    return tagged('I', cls, num, T)


def E(num, T, cls='C'):
    return tagged('E', cls, num, T)


# ---------------------------------------------------------------------------
# LEAF
# ---------------------------------------------------------------------------

def _int_values():
    vals = [0, 1, -1]
    for k in range(1, 10):
        p = 2 ** (8 * k - 1)
        vals += [p - 1, p, -p, -p - 1]
    vals += [255, 256, 65535, 65536]
    out = []
    for v in vals:
        if v not in out:
            out.append(v)
    return out


def _bits_values():
    out = ['']
    for n in range(1, 5):
        for i in range(2 ** n):
            out.append(bin(i)[2:].zfill(n))
    for n in range(5, 18):
        out.append(('10110011' * 3)[:n])
        out.append('0' * n)
    out.append('1' * 17)
    # later octets / the whole value starting with zero bits (fragment reassembly must keep them)
    out += ['1111111100001111', '0110000101100001', '0000000000000001', '000000001', '00000000111111110000000011',
            '0' * 24, '010000000000000010000000']
    return out


def _octs_values():
    out = [b'', b'\x00', b'\x00\x00', b'a', b'ab', b'\xff\x00\x80', b'\x30\x80\x00\x00']
    for n in (127, 128, 255, 256):
        out.append(bytes((i * 7 + n) & 0xFF for i in range(n)))
    return out


def _oid_values():
    return [(0, 0), (0, 39), (1, 0), (1, 39), (2, 0), (2, 39), (2, 40), (2, 47), (2, 48), (2, 175),
            (2, 16304), (1, 2, 127), (1, 2, 128), (1, 2, 16383), (1, 2, 16384), (1, 3, 2 ** 32),
            (2, 999, 2 ** 64), (1, 3, 6, 1, 4, 1, 0), (2, 100, 3), (0, 9, 2342, 19200300, 100, 1, 25)]


def _real_values():
    return [
        (0, 10, 0), 'inf', '-inf',
        (1, 2, 0), (-1, 2, 0), (3, 2, -1), (-5, 2, 3), (6, 2, 1), (12, 2, -4), (255, 2, 0), (256, 2, 0),
        (1, 2, 127), (1, 2, 128), (1, 2, -128), (1, 2, -129), (1, 2, 32767), (1, 2, 32768),
        (1, 2, -32768), (1, 2, -32769), (1, 2, 8388607), (1, 2, 8388608), (1, 2, -8388609),
        (2 ** 60 + 1, 2, -10), (-(2 ** 64 + 3), 2, 5), (65535, 2, -16),
        (1, 2, 400), (3, 2, 1000), (1, 2, 1023), (-7, 2, 310), (5, 2, -1000),
        (1, 10, 0), (-3, 10, 2), (125, 10, -2), (5, 10, -1), (123, 10, 10), (-75, 10, -3), (-123, 10, 1), (12, 10, 1),
    ]


ASCII_KINDS = ('NumericString', 'PrintableString', 'TeletexString', 'VideotexString', 'IA5String',
               'GraphicString', 'VisibleString', 'GeneralString', 'ObjectDescriptor', 'T61String', 'ISO646String')


def _str_values(kind):
    if kind == 'NumericString':
        return ['', '0', '123 456']
    if kind == 'UTF8String':
        return ['', 'abc', 'é', 'a€b', '\U0001F600', 'é€\U0001F600x']
    if kind == 'BMPString':
        return ['', 'abc', 'é€', 'A中']
    if kind == 'UniversalString':
        return ['', 'abc', 'é\U0001F600']
    if kind == 'GeneralizedTime':
        return ['20200229120102Z', '19991231235959.5Z', '20491231000000.123Z']
    if kind == 'UTCTime':
        return ['200229120102Z', '991231235959Z', '7001010000Z']
    return ['', 'abc', 'Hello, World 42']


def _any_values():
    return [bytes.fromhex(h) for h in (
        '020105', '0400', '0500', '3003020101', '3000', 'a003020101', '1f8101020104',
        '308002010100 00'.replace(' ', ''), '2480040161040162 0000'.replace(' ', ''),
        '04820100' + '41' * 256,
        # indefinite-length TLVs under long-form identifiers (tag numbers 31, 128) and a nested one
        'bf1f800201050000', 'bf8100800401610000', '7f1f80bf1f80050000000000', 'bf1f8004036162630201050000')]


def leaf_types():
    out = [BOOL, INT, ENUM, BITS, OCTS, NULL, OID, REAL]
    out += [STR(k) for k in M.STR_KINDS]
    return out


def leaf_values(T):
    k = T[0]
    if k == 'BOOL':
        return [False, True]
    if k == 'INT':
        return _int_values()
    if k == 'ENUM':
        return [n for _, n in T[1]]
    if k == 'BITS':
        return _bits_values()
    if k == 'OCTS':
        return _octs_values()
    if k == 'NULL':
        return [None]
    if k == 'OID':
        return _oid_values()
    if k == 'REAL':
        return _real_values()
    if k == 'STR':
        return _str_values(T[1])
    if k == 'ANY':
        return _any_values()
    raise ValueError(T)


def small_values(T):
    """Two or three representative values per leaf type (used inside containers)."""
    k = T[0]
    if k == 'TAG' or k == 'CON':
        return small_values(T[4] if k == 'TAG' else T[2])
    table = {
        'BOOL': [True, False], 'INT': [0, -129], 'ENUM': [1, 300], 'BITS': ['', '0110000100001111'],
        'OCTS': [b'', b'\x00\x00'], 'NULL': [None], 'OID': [(1, 2, 128), (2, 999, 3)],
        'REAL': [(3, 2, -1), 'inf'], 'ANY': [bytes.fromhex('020105'), bytes.fromhex('3003020101')],
    }
    if k in table:
        return table[k]
    if k == 'STR':
        vs = _str_values(T[1])
        return [vs[0], vs[-1]] if len(vs) > 1 else vs
    if k in ('SEQOF', 'SETOF'):
        inner = small_values(T[1])
        return [[], [inner[0], inner[-1]]]
    if k == 'CHOICE':
        out = []
        for n, alt in T[1]:
            out.append((n, small_values(alt)[-1]))
        return out[:2] if len(out) > 2 else out
    if k in ('SEQ', 'SET'):
        return list(itertools.islice(record_values(T), 2))
    raise ValueError(T)


def LEAF(tier='quick'):
    for T in leaf_types():
        for v in leaf_values(T):
            yield T, v
    for v in _any_values():
        yield ANY, v


# ---------------------------------------------------------------------------
# BIG
# ---------------------------------------------------------------------------

def BIG(tier='quick'):
    sizes = [999, 1000, 1001, 2001] if tier == 'quick' else [999, 1000, 1001, 2000, 2001, 3000, 65535, 65536]
    for n in sizes:
        yield OCTS, bytes((i * 13 + 1) & 0xFF for i in range(n))
    for n in sizes[:4] if tier == 'quick' else sizes[:6]:
        yield UTF8, ('abé' * n)[:n]
        yield STR('IA5String'), ('xyz' * n)[:n]
    yield STR('BMPString'), 'A中' * 600
    yield STR('UniversalString'), '\U0001F600' * 300
    for nbits in (7991, 7992, 7993, 8000, 8001, 16001):
        yield BITS, ('110' * nbits)[:nbits]
    yield I(5, BITS), ('110' * 8001)[:8001]
    yield E(1, I(2, BITS)), ('011' * 8001)[:8001]
    yield ('SEQ', (('k', INT, 'R', None), ('b', I(3, BITS, 'A'), 'R', None))), {'k': 1, 'b': ('101' * 8001)[:8001]}
    yield I(6, OCTS), bytes((i * 3) & 0xFF for i in range(1001))
    yield E(7, I(8, UTF8, 'P')), ('abé' * 1001)[:1001]
    yield BITS, '0' * 8004
    yield BITS, ('0' * 8000 + '1' * 8000 + '0001')
    yield BITS, ('001' * 6000)[:16003]
    # length-octet boundaries for containers
    for n in (126, 127, 128, 255, 256):
        yield ('SEQOF', NULL), [None] * ((n + 1) // 2)
    # wide but shallow values: hundreds of constructed members / constructed strings in one encoding (every one
    # of them brings its own end-of-octets in indefinite mode)
    yield ('SEQOF', ('SEQ', ())), [{}] * 150
    yield ('SEQOF', ('SEQOF', INT)), [[1], []] * 130
    yield ('SETOF', OCTS), [bytes([65 + (i % 26), 66 + (i % 7)]) for i in range(150)]
    yield ('SEQOF', E(2, ('CHOICE', (('a', I(0, INT)), ('s', I(1, OCTS)))))), [('a', 1), ('s', b'xy')] * 60
    if tier != 'quick':
        yield ('SEQOF', INT), list(range(21846))          # contents 65535+ octets region
        yield ('SEQOF', OCTS), [b'x' * 300] * 220


# ---------------------------------------------------------------------------
# TAGS
# ---------------------------------------------------------------------------

TAG_NUMS_QUICK = (0, 30, 31, 127, 128, 16383, 16384, 2 ** 32)
TAG_NUMS_SMALL = (0, 31, 2 ** 32)


def tag_bases():
    seq = ('SEQ', (('a', INT, 'R', None), ('b', BOOL, 'O', None)))
    st = ('SET', (('a', INT, 'R', None), ('b', BOOL, 'O', None)))
    ch = ('CHOICE', (('x', INT), ('y', OCTS)))
    bases = [(T, small_values(T)[-1]) for T in leaf_types()]
    bases += [(seq, {'a': 5, 'b': True}), (('SEQOF', INT), [1, 2]), (st, {'a': 5}),
              (('SETOF', INT), [2, 1]), (ch, ('y', b'hi'))]
    return bases


def tag_stacks(depth, nums, classes=('C', 'A', 'P')):
    """All stacks (outermost first) of <= depth taggings."""
    one = [(m, c, n) for m in ('I', 'E') for c in classes for n in nums]
    for d in range(1, depth + 1):
        for combo in itertools.product(one, repeat=d):
            yield combo


def apply_stack(stack, T):
    """stack outermost first"""
    for m, c, n in reversed(stack):
        T = tagged(m, c, n, T)
    return T


def TAGS(tier='quick', depth=None, nums=None, classes=None):
    if depth is None:
        depth = 2 if tier == 'quick' else 3
    if nums is None:
        nums = TAG_NUMS_QUICK
    for T, v in tag_bases():
        yield T, v
    for d in range(1, depth + 1):
        if d == 1:
            stacks = tag_stacks(1, nums)
        elif d == 2:
            # depth 2: full class product only on the outer level; inner level context only
            outer = [(m, c, n) for m in ('I', 'E') for c in ('C', 'A', 'P') for n in nums]
            inner = [(m, 'C', n) for m in ('I', 'E') for n in (nums if tier != 'quick' else (0, 31, 128, 2 ** 32))]
            stacks = [(o, i) for o in outer for i in inner]
        else:
            one = [(m, c, n) for m in ('I', 'E') for c in ('C', 'P') for n in TAG_NUMS_SMALL]
            stacks = itertools.product(one, repeat=d)
        stacks = [tuple(st) for st in stacks]
        for T, v in tag_bases():
            if d >= 2 and tier == 'quick' and T[0] == 'STR' and T[1] not in ('UTF8String', 'BMPString', 'GeneralizedTime'):
                continue
            for st in stacks:
                TT = apply_stack(st, T)
                if M.legal(TT):
                    yield TT, v


# ---------------------------------------------------------------------------
# REC / OF / CH / NEST / OPEN
# ---------------------------------------------------------------------------

CH_UNTAGGED = ('CHOICE', (('ca', I(10, INT)), ('cb', I(11, OCTS))))

MENU_QUICK = [
    INT, BOOL, OCTS, NULL, UTF8, I(0, INT), E(1, INT), E(2, OCTS),
]
MENU_THOROUGH = MENU_QUICK + [('SEQOF', INT), CH_UNTAGGED, BITS, I(3, BOOL, 'A')]
MENU_SMALL = [INT, OCTS, E(1, INT), I(0, BOOL), CH_UNTAGGED]


def record_values(T):
    """All values of a SEQ/SET T over small_values of its components: every required
    value, optional absent + values, default equal/unequal."""
    fields = T[1]
    choices = []
    for name, ft, opt, dflt in fields:
        vals = small_values(ft)
        if opt == 'R':
            choices.append([(name, v) for v in vals])
        elif opt == 'O':
            choices.append([None] + [(name, v) for v in vals])
        else:
            dv = M.thaw(dflt)
            other = [v for v in vals if not M.values_equal(ft, v, dv)]
            choices.append([(name, dv)] + [(name, v) for v in other[:1]])
    for combo in itertools.product(*choices):
        yield dict(c for c in combo if c is not None)


def record_types(kind, menu, maxk, modes=('R', 'O', 'D'), any_last=False):
    names = ('a', 'b', 'c', 'd')
    for k in range(0, maxk + 1):
        for comps in itertools.product(menu, repeat=k):
            for opts in itertools.product(modes, repeat=k):
                fields = []
                for i in range(k):
                    dflt = M.freeze(small_values(comps[i])[0]) if opts[i] == 'D' else None
                    fields.append((names[i], comps[i], opts[i], dflt))
                T = (kind, tuple(fields))
                if M.legal(T):
                    yield T
    if any_last:
        for first in menu[:3]:
            for opt in ('R', 'O'):
                T = (kind, (('a', first, 'R', None), ('z', ANY, opt, None)))
                if M.legal(T):
                    yield T


def REC(tier='quick', kinds=('SEQ', 'SET')):
    for kind in kinds:
        if tier == 'quick':
            plan = [(MENU_QUICK, 2), (MENU_SMALL, 3)]
        else:
            plan = [(MENU_THOROUGH, 2), (MENU_QUICK, 3)]
        seen = set()
        for menu, maxk in plan:
            for T in record_types(kind, menu, maxk, any_last=(kind == 'SEQ' and maxk == 2)):
                if T in seen:
                    continue
                seen.add(T)
                for v in record_values(T):
                    yield T, v


def OF(tier='quick'):
    menu = (MENU_QUICK if tier == 'quick' else MENU_THOROUGH) + [OID, REAL, ENUM]
    for kind in ('SEQOF', 'SETOF'):
        for ct in menu:
            T = (kind, ct)
            vals = small_values(ct)
            yield T, []
            for n in (1, 2, 3):
                for combo in itertools.product(vals, repeat=n):
                    yield T, list(combo)
    # SET OF members of unequal length and with shared prefixes
    T = ('SETOF', OCTS)
    pool = [b'', b'a', b'ab', b'a\x00', b'b', b'\x00']
    for n in (2, 3):
        for combo in itertools.permutations(pool, n):
            yield T, list(combo)
    T = ('SETOF', INT)
    for combo in itertools.permutations([0, 1, 128, 256, -1, 65536], 3):
        yield T, list(combo)
    T = ('SETOF', ('SEQOF', INT))
    for combo in itertools.permutations([[], [1], [1, 2], [2]], 3):
        yield T, list(combo)


def choice_types(tier='quick'):
    alts_menu = [I(0, INT), I(1, OCTS), E(2, INT), BOOL, NULL, UTF8]
    names = ('x', 'y', 'z')
    for k in (1, 2, 3):
        for combo in itertools.combinations(alts_menu, k):
            T = ('CHOICE', tuple(zip(names, combo)))
            if M.legal(T):
                yield T
    inner = ('CHOICE', (('p', I(5, INT)), ('q', I(6, BOOL))))
    yield ('CHOICE', (('x', INT), ('n', inner)))
    yield ('CHOICE', (('n', inner), ('m', ('CHOICE', (('r', I(7, OCTS)), ('s', NULL))))))
    yield ('CHOICE', (('x', INT), ('e', E(3, inner))))
    yield ('CHOICE', (('s', ('SEQ', (('a', INT, 'R', None),))), ('t', ('SETOF', INT))))


def choice_values(T):
    for n, alt in T[1]:
        for v in small_values(alt):
            yield (n, v)


def CH(tier='quick'):
    for T in choice_types(tier):
        for v in choice_values(T):
            yield T, v
            # explicitly tagged CHOICE
        TT = E(9, T)
        for v in itertools.islice(choice_values(T), 3):
            yield TT, v
        TT = E(40, T, 'A')
        for v in itertools.islice(choice_values(T), 1):
            yield TT, v
        # the CHOICE's own explicit tag re-used by one of its alternatives one level down (legal ASN.1)
        for num in (0, 1, 2):
            TT = E(num, T)
            if M.legal(TT):
                for v in itertools.islice(choice_values(T), 4):
                    yield TT, v
    # nested and explicitly tagged CHOICE alternatives inside containers that locate components by tag
    inner = ('CHOICE', (('p', I(5, INT)), ('q', I(6, BOOL))))
    deep = [('CHOICE', (('x', INT), ('n', inner))),
            ('CHOICE', (('x', INT), ('e', E(3, inner)))),
            ('CHOICE', (('n', inner), ('m', ('CHOICE', (('r', I(7, OCTS)), ('s', NULL))))))]
    for T in deep:
        for kind in ('SEQ', 'SET'):
            for opt in ('R', 'O'):
                R = (kind, (('o', I(20, OCTS), 'O', None), ('c', T, opt, None), ('t', I(21, BOOL), 'R', None)))
                if not M.legal(R):
                    continue
                for v in choice_values(T):
                    yield R, {'c': v, 't': True}
                    yield R, {'o': b'z', 'c': v, 't': False}
        W = ('CHOICE', (('w', T), ('k', I(22, NULL))))
        if M.legal(W):
            for v in choice_values(T):
                yield W, ('w', v)
    # CHOICE inside SEQUENCE / SET (required, optional)
    for T in itertools.islice(choice_types(tier), 0, None, 3):
        for kind in ('SEQ', 'SET'):
            for opt in ('R', 'O'):
                R = (kind, (('h', I(20, INT), 'R', None), ('c', T, opt, None), ('t', I(21, BOOL), 'O', None)))
                if not M.legal(R):
                    continue
                for v in choice_values(T):
                    yield R, {'h': 1, 'c': v}
                    yield R, {'h': 1, 'c': v, 't': True}
                if opt == 'O':
                    yield R, {'h': 1}


def NEST(tier='quick'):
    """depth-2 (quick) and depth-3 (thorough) compositions."""
    inner_types = [
        ('SEQ', ()),
        ('SEQ', (('a', INT, 'R', None), ('b', OCTS, 'O', None))),
        ('SET', (('a', INT, 'D', 0), ('b', E(1, OCTS), 'R', None))),
        ('SEQOF', INT),
        ('SETOF', OCTS),
        CH_UNTAGGED,
        E(4, ('SEQ', (('a', BOOL, 'R', None),))),
        I(5, ('SEQOF', UTF8)),
        E(6, CH_UNTAGGED),
        ('SEQOF', ('SEQ', (('a', INT, 'R', None),))),
    ]

    def compose(inner):
        # containers over inner types
        for a in inner:
            yield ('SEQOF', a)
            yield ('SETOF', a)
            yield E(7, ('SEQOF', a))
            for opt in ('R', 'O', 'D'):
                dflt = M.freeze(small_values(a)[0]) if opt == 'D' else None
                yield ('SEQ', (('h', I(30, INT), 'R', None), ('n', a, opt, dflt)))
                yield ('SET', (('h', I(30, INT), 'O', None), ('n', a, opt, dflt)))
            yield ('CHOICE', (('k', I(31, NULL)), ('n', a)))
        for a, b in itertools.permutations(inner[:6], 2):
            yield ('SEQ', (('p', a, 'O', None), ('q', b, 'R', None)))
            yield ('SET', (('p', a, 'R', None), ('q', b, 'O', None)))

    # several long-form (>= 31) tags of the same class and form inside one encoding
    long_members = [
        ('SEQ', (('a', E(1000, INT), 'R', None), ('b', E(1001, OCTS), 'R', None))),
        ('SEQ', (('a', I(31, INT), 'R', None), ('b', I(32, INT), 'O', None), ('c', I(16384, BOOL), 'R', None))),
        ('SET', (('a', E(300, INT), 'R', None), ('b', E(301, BOOL), 'R', None))),
        ('SET', (('a', I(2 ** 32, OCTS, 'P'), 'R', None), ('b', I(127, OCTS, 'P'), 'R', None))),
        ('SEQOF', I(40, INT, 'A')),
        ('SEQOF', ('CHOICE', (('x', I(300, INT)), ('y', I(301, INT))))),
        E(70000, E(1000, INT)),
        ('SEQ', (('p', E(50, ('SEQ', (('i', E(51, INT), 'R', None),)), 'A'), 'R', None), ('q', E(52, NULL, 'A'), 'R', None))),
    ]
    for T in long_members:
        assert M.legal(T), T
        for v in _nest_values(T, 6 if tier == 'quick' else 12):
            yield T, v

    # SETs whose canonical (tag) order differs from the byte order of the member encodings: a constructed
    # identifier octet sorts after a primitive one of a higher tag number
    order_sets = [
        ('SET', (('a', E(0, INT), 'R', None), ('b', I(1, INT), 'R', None))),
        ('SET', (('s', ('SEQ', (('i', INT, 'R', None),)), 'R', None), ('t', STR('IA5String'), 'R', None))),
        ('SET', (('s', ('SETOF', INT), 'R', None), ('p', STR('PrintableString'), 'O', None), ('u', STR('UTCTime'), 'R', None))),
        ('SET', (('a', E(5, OCTS), 'R', None), ('b', I(6, BOOL), 'R', None), ('c', E(7, INT), 'O', None))),
        ('SEQ', (('w', ('SET', (('x', E(2, BOOL), 'R', None), ('y', I(3, OCTS), 'R', None))), 'R', None), ('z', INT, 'O', None))),
        # tag numbers on both sides of 31, 64, 128 and class boundaries in one SET
        ('SET', (('a', I(64, INT, 'A'), 'R', None), ('b', I(1, INT, 'A'), 'R', None))),
        ('SET', (('a', I(128, INT), 'R', None), ('b', I(1, INT), 'R', None), ('c', E(64, OCTS), 'O', None))),
        ('SET', (('a', I(5, INT), 'R', None), ('b', I(200, INT, 'A'), 'R', None), ('c', I(31, BOOL, 'P'), 'R', None))),
        # (placeholder)
    # an untagged CHOICE nested in an untagged CHOICE member: placed by the alternative chosen (DER) /
        # the smallest alternative (CER)
        ('SET', (('c', ('CHOICE', (('n', ('CHOICE', (('i', INT), ('o', OCTS)))), ('r', UTF8))), 'R', None),
                 ('b', BOOL, 'R', None), ('u', NULL, 'R', None))),
        # ... with a sibling whose tag lies between the tags of the inner alternatives (the smallest inner tag
        # and the tag actually chosen then put the member in different places)
        ('SET', (('c', ('CHOICE', (('n', ('CHOICE', (('i', INT), ('o', OCTS)))), ('r', UTF8))), 'R', None),
                 ('b', BOOL, 'R', None), ('s', BITS, 'R', None))),
    ]
    for T in order_sets:
        assert M.legal(T), T
        for v in _nest_values(T, 6 if tier == 'quick' else 12):
            yield T, v

    # DEFAULT components of BIT STRING / OID / REAL / ENUMERATED type (the record menu has the other leaf types)
    more_defaults = [
        (BITS, '101', ['101', '', '0', '1010', '00000000', '10100000']),
        (I(3, BITS), '', ['', '0', '1']),
        (OID, (1, 2, 128), [(1, 2, 128), (1, 2), (2, 999, 3)]),
        (REAL, (1, 2, -1), [(1, 2, -1), (2, 2, -2), (1, 2, 0), 'inf']),
        (ENUM, 1, [0, 1, 300]),
    ]
    for ft, dflt, vals in more_defaults:
        for kind in ('SEQ', 'SET'):
            T = (kind, (('h', I(30, INT), 'R', None), ('f', ft, 'D', M.freeze(dflt)), ('g', I(31, M.strip_con(ft) if ft[0] != 'TAG' else ft[4]), 'O', None)))
            assert M.legal(T), T
            for fv in vals:
                yield T, {'h': 1, 'f': fv}
                yield T, {'h': 1, 'f': fv, 'g': vals[-1]}

    # DEFAULT component of record type holding OPTIONAL constructed members
    inner_rec = ('SEQ', (('a', INT, 'R', None), ('l', ('SEQOF', INT), 'O', None), ('c', ('CHOICE', (('x', I(0, INT)), ('y', I(1, BOOL)))), 'O', None)))
    for kind in ('SEQ', 'SET'):
        T = (kind, (('h', I(30, INT), 'R', None), ('n', I(29, inner_rec), 'D', M.freeze({'a': 1}))))
        assert M.legal(T)
        for nv in ({'a': 1}, {'a': 2}, {'a': 1, 'l': []}, {'a': 1, 'l': [5]}, {'a': 1, 'c': ('x', 0)}):
            yield T, {'h': 7, 'n': nv}

    # DEFAULT component of SET OF type: the same set written in another order is still the default; a value of the
    # same length whose members all occur in the default but with other multiplicities ({1,1} vs {1,2}) is not
    for kind in ('SEQ', 'SET'):
        T = (kind, (('h', I(30, INT), 'R', None), ('s', I(29, ('SETOF', INT)), 'D', M.freeze([1, 2]))))
        assert M.legal(T)
        for sv in ([1, 2], [2, 1], [1], [2, 1, 1], [], [1, 1], [2, 2]):
            yield T, {'h': 7, 's': sv}

    # DEFAULT component of CHOICE type whose alternatives can hold equal contents
    chdef = ('CHOICE', (('a', I(0, INT)), ('b', I(1, INT)), ('s', I(2, OCTS))))
    for kind in ('SEQ', 'SET'):
        T = (kind, (('h', I(30, INT), 'R', None), ('c', chdef, 'D', M.freeze(('a', 5)))))
        assert M.legal(T)
        for cv in (('a', 5), ('b', 5), ('a', 6), ('b', 0), ('s', b'')):
            yield T, {'h': 1, 'c': cv}

    # DEFAULT components of record type whose members are all OPTIONAL/DEFAULT: non-empty default vs. empty value etc.
    allopt = ('SEQ', (('a', INT, 'O', None), ('b', OCTS, 'O', None)))
    alldef = ('SET', (('a', INT, 'D', 5), ('b', I(1, BOOL), 'O', None)))
    for kind in ('SEQ', 'SET'):
        for inner_t, dflt, vals in ((allopt, {'a': 1}, [{}, {'a': 1}, {'a': 2}, {'b': b''}, {'a': 1, 'b': b'x'}]),
                                    (alldef, {'a': 5, 'b': True}, [{'a': 5}, {'a': 5, 'b': True}, {'a': 6}, {'a': 5, 'b': False}])):
            T = (kind, (('h', I(30, INT), 'R', None), ('n', inner_t, 'D', M.freeze(dflt)), ('t', I(31, NULL), 'O', None)))
            assert M.legal(T)
            for nv in vals:
                yield T, {'h': 1, 'n': nv}
                yield T, {'h': 1, 'n': nv, 't': None}

    level2 = [T for T in compose(inner_types) if M.legal(T)]
    for T in level2:
        for v in _nest_values(T, 6 if tier == 'quick' else 12):
            yield T, v
    if tier != 'quick':
        level3 = [T for T in compose(level2[::7]) if M.legal(T)]
        for T in level3:
            for v in _nest_values(T, 4):
                yield T, v


def _nest_values(T, limit):
    k = T[0]
    if k in ('SEQ', 'SET'):
        return list(itertools.islice(record_values(T), limit))
    if k in ('SEQOF', 'SETOF'):
        inner = small_values(T[1])
        out = [[], [inner[0]], [inner[-1], inner[0]], [inner[0], inner[-1], inner[0]]]
        return out[:limit]
    if k == 'CHOICE':
        return list(itertools.islice(choice_values(T), limit))
    if k == 'TAG':
        return _nest_values(T[4], limit)
    return small_values(T)[:limit]


# ---------------------------------------------------------------------------
# case sets by name
# ---------------------------------------------------------------------------

SLICES = {'LEAF': LEAF, 'BIG': BIG, 'TAGS': TAGS, 'REC': REC, 'OF': OF, 'CH': CH, 'NEST': NEST}


def cases(names, tier='quick'):
    for n in names:
        for T, v in SLICES[n](tier):
            yield n, T, v


def has_string(T):
    """Does T contain a string leaf (for which maxChunkSize matters)?"""
    k = T[0]
    if k in ('BITS', 'OCTS', 'STR'):
        return True
    if k in ('TAG',):
        return has_string(T[4])
    if k == 'CON':
        return has_string(T[2])
    if k in ('SEQ', 'SET'):
        return any(has_string(f[1]) for f in T[1])
    if k in ('SEQOF', 'SETOF'):
        return has_string(T[1])
    if k == 'CHOICE':
        return any(has_string(a[1]) for a in T[1])
    return False


def contains(T, pred):
    if pred(T):
        return True
    k = T[0]
    if k == 'TAG':
        return contains(T[4], pred)
    if k == 'CON':
        return contains(T[2], pred)
    if k in ('SEQ', 'SET'):
        return any(contains(f[1], pred) for f in T[1])
    if k in ('SEQOF', 'SETOF'):
        return contains(T[1], pred)
    if k == 'CHOICE':
        return any(contains(a[1], pred) for a in T[1])
    return False
