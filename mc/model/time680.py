"""Independent reader of X.680 GeneralizedTime / UTCTime value notation.

read_generalized(s) / read_utc(s) -> (instant, offset_minutes)
  instant: fractions.Fraction seconds since 1970-01-01T00:00:00 of the *local* clock reading
           converted to UTC when an offset or Z is given (offset None = local time, instant is the
           local clock reading)
"""
import datetime
import re
from fractions import Fraction

GT = re.compile(r'^(\d{4})(\d\d)(\d\d)(\d\d)(?:(\d\d)(?:(\d\d))?)?(?:[.,](\d+))?(Z|[+-]\d\d(?:\d\d)?)?$')
UT = re.compile(r'^(\d\d)(\d\d)(\d\d)(\d\d)(\d\d)(\d\d)?(Z|[+-]\d\d\d\d)$')
EPOCH = datetime.datetime(1970, 1, 1)


class TimeSyntaxError(Exception):
    pass


def _zone(z):
    if z is None:
        return None
    if z == 'Z':
        return 0
    sign = -1 if z[0] == '-' else 1
    hh = int(z[1:3])
    mm = int(z[3:5]) if len(z) > 3 else 0
    return sign * (hh * 60 + mm)


def read_generalized(s):
    m = GT.match(s)
    if not m:
        raise TimeSyntaxError(s)
    Y, Mo, D, H, Mi, S, frac, z = m.groups()
    try:
        base = datetime.datetime(int(Y), int(Mo), int(D), int(H), int(Mi or 0), int(S or 0))
    except ValueError:
        raise TimeSyntaxError(s)
    secs = Fraction((base - EPOCH).days * 86400 + (base - EPOCH).seconds)
    if frac:
        f = Fraction(int(frac), 10 ** len(frac))
        unit = 1 if S is not None else (60 if Mi is not None else 3600)
        secs += f * unit
    off = _zone(z)
    if off is not None:
        secs -= off * 60
    return secs, off


def read_utc(s, century=None):
    """century: 1900 / 2000 to force the reading of the two-digit year (X.680 leaves it to the application;
    default: the X.509 convention, 50..99 -> 19xx)"""
    m = UT.match(s)
    if not m:
        raise TimeSyntaxError(s)
    Y, Mo, D, H, Mi, S, z = m.groups()
    yy = int(Y)
    year = (century + yy) if century else (1900 + yy if yy >= 50 else 2000 + yy)
    try:
        base = datetime.datetime(year, int(Mo), int(D), int(H), int(Mi), int(S or 0))
    except ValueError:
        raise TimeSyntaxError(s)
    secs = Fraction((base - EPOCH).days * 86400 + (base - EPOCH).seconds)
    off = _zone(z)
    secs -= off * 60
    return secs, off


def instant_of_datetime(dt):
    """Fraction seconds since epoch (UTC) of a datetime; naive = UTC."""
    off = dt.utcoffset()
    naive = dt.replace(tzinfo=None)
    d = naive - EPOCH
    secs = Fraction(d.days * 86400 + d.seconds) + Fraction(d.microseconds, 10 ** 6)
    if off is not None:
        secs -= Fraction(off.days * 86400 + off.seconds)
    return secs


def canonical_problems(s, generalized=True):
    """Violations of the canonical-form conditions named in the property."""
    bad = []
    if not s.endswith('Z'):
        bad.append('no Z designator')
    if ',' in s:
        bad.append('comma as decimal mark')
    if '+' in s or '-' in s:
        bad.append('offset present')
    if '.' in s:
        frac = s[s.index('.') + 1:].rstrip('Z')
        if frac == '':
            bad.append('dangling decimal point')
        elif frac.endswith('0'):
            bad.append('trailing zero in fraction')
    return bad
