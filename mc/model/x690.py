"""Independent reference model of ASN.1 types, abstract values and X.690.

Written from the standard text (X.680 / X.690); it never imports pyasn1.

Type descriptors are plain tuples (hashable, JSON-able after listification):

  ('BOOL',) ('INT',) ('ENUM', ((name, n), ...)) ('BITS',) ('OCTS',) ('NULL',)
  ('OID',) ('REAL',) ('STR', kind) ('ANY',)
  ('TAG', 'I'|'E', cls, num, T)          cls in 'U','A','C','P' ('U' never generated)
  ('SEQ', fields) ('SET', fields)        fields = ((name, T, 'R'|'O'|'D', default), ...)
  ('SEQOF', T) ('SETOF', T)
  ('CHOICE', ((name, T), ...))
  ('CON', cdesc, T)                      subtype constraint; transparent for X.690

Abstract values:
  BOOL bool | INT/ENUM int | BITS str over '01' | OCTS bytes | NULL None
  OID tuple[int] | REAL 'inf' | '-inf' | (m, b, e) with b in (2, 10)
  STR  str (characters) | ANY bytes (one complete TLV)
  SEQ/SET dict name -> value (absent OPTIONAL = key missing; DEFAULT always present)
  SEQOF/SETOF list | CHOICE (altname, value)
"""
from fractions import Fraction

CLS_BITS = {'U': 0x00, 'A': 0x40, 'C': 0x80, 'P': 0xC0}
CLS_ORDER = {'U': 0, 'A': 1, 'C': 2, 'P': 3}
BITS_CLS = {v: k for k, v in CLS_BITS.items()}

UNIV = {
    'BOOL': 1, 'INT': 2, 'BITS': 3, 'OCTS': 4, 'NULL': 5, 'OID': 6, 'REAL': 9,
    'ENUM': 10, 'SEQ': 16, 'SEQOF': 16, 'SET': 17, 'SETOF': 17,
}

# kind -> (universal tag number, python codec)
STR_KINDS = {
    'UTF8String': (12, 'utf-8'),
    'NumericString': (18, 'us-ascii'),
    'PrintableString': (19, 'us-ascii'),
    'TeletexString': (20, 'iso-8859-1'),
    'T61String': (20, 'iso-8859-1'),          # pyasn1 ships the X.680 synonyms as classes of their own
    'ISO646String': (26, 'us-ascii'),
    'VideotexString': (21, 'iso-8859-1'),
    'IA5String': (22, 'us-ascii'),
    'GraphicString': (25, 'iso-8859-1'),
    'VisibleString': (26, 'us-ascii'),
    'GeneralString': (27, 'iso-8859-1'),
    'UniversalString': (28, 'utf-32-be'),
    'BMPString': (30, 'utf-16-be'),
    'ObjectDescriptor': (7, 'iso-8859-1'),
    'GeneralizedTime': (24, 'us-ascii'),
    'UTCTime': (23, 'us-ascii'),
}

CONSTRUCTED_KINDS = ('SEQ', 'SET', 'SEQOF', 'SETOF')
STRING_KINDS = ('BITS', 'OCTS', 'STR')


class ModelError(Exception):
    """The reference model was asked something outside its domain."""


class ReadError(Exception):
    """The reference reader rejects the bytes for the given type."""


def freeze(v):
    """Hashable form of an abstract value (DEFAULT values inside type descriptors)."""
    if isinstance(v, list):
        return ('#L',) + tuple(freeze(x) for x in v)
    if isinstance(v, dict):
        return ('#D',) + tuple((k, freeze(x)) for k, x in v.items())
    if isinstance(v, tuple):
        return tuple(freeze(x) for x in v)
    return v


def thaw(v):
    if isinstance(v, tuple):
        if v and v[0] == '#L':
            return [thaw(x) for x in v[1:]]
        if v and v[0] == '#D':
            return {k: thaw(x) for k, x in v[1:]}
        return tuple(thaw(x) for x in v)
    return v


# ---------------------------------------------------------------------------
# type algebra
# ---------------------------------------------------------------------------

def strip_con(T):
    while T[0] == 'CON':
        T = T[2]
    return T


def base_of(T):
    """The untagged, unconstrained base type below all TAG/CON wrappers."""
    T = strip_con(T)
    while T[0] == 'TAG':
        T = strip_con(T[4])
    return T


def is_untagged(T):
    """True for CHOICE and ANY without any tag wrapper (they own no tag)."""
    T = strip_con(T)
    return T[0] in ('CHOICE', 'ANY')


def univ_tag(T):
    k = T[0]
    if k == 'STR':
        return ('U', STR_KINDS[T[1]][0])
    return ('U', UNIV[k])


def tag_stack(T):
    """Tags on the wire, outermost first: list of (cls, num).
    For untagged CHOICE/ANY the list is empty (their tags depend on the value)."""
    T = strip_con(T)
    k = T[0]
    if k == 'TAG':
        _, mode, cls, num, inner = T
        inner_tags = tag_stack(inner)
        if mode == 'E' or not inner_tags:
            # IMPLICIT over an untagged CHOICE/ANY is EXPLICIT per X.680 31.2.7
            return [(cls, num)] + inner_tags
        return [(cls, num)] + inner_tags[1:]
    if k in ('CHOICE', 'ANY'):
        return []
    return [univ_tag(T)]


def first_tags(T):
    """Set of possible outermost tags (cls, num) of encodings of T, or None when
    any tag is possible (untagged ANY)."""
    T = strip_con(T)
    k = T[0]
    if k == 'TAG':
        return {(T[2], T[3])}
    if k == 'ANY':
        return None
    if k == 'CHOICE':
        out = set()
        for _, alt in T[1]:
            ft = first_tags(alt)
            if ft is None:
                return None
            out |= ft
        return out
    return {univ_tag(T)}


def tag_key(t):
    return (CLS_ORDER[t[0]], t[1])


def min_tag(T):
    ft = first_tags(T)
    if ft is None:
        raise ModelError('no static tag for ANY')
    return min(ft, key=tag_key)


def legal(T, in_open=False):
    """X.680 legality of a generated type (distinct tags where required)."""
    T = strip_con(T)
    k = T[0]
    if k == 'TAG':
        _, mode, cls, num, inner = T
        if cls == 'U':
            return False
        if mode == 'I' and is_untagged(inner):
            return False
        return legal(inner)
    if k in ('SEQ', 'SET'):
        fields = T[1]
        names = [f[0] for f in fields]
        if len(set(names)) != len(names):
            return False
        for f in fields:
            if not legal(f[1]):
                return False
        if k == 'SET':
            seen = set()
            for f in fields:
                ft = first_tags(f[1])
                if ft is None:
                    return False
                if ft & seen:
                    return False
                seen |= ft
            return True
        # SEQUENCE: X.680 25.6 - tags of consecutive OPTIONAL/DEFAULT components and the
        # following component must be distinct
        n = len(fields)
        for i in range(n):
            if fields[i][2] == 'R':
                continue
            seen = set()
            j = i
            while j < n:
                ft = first_tags(fields[j][1])
                if ft is None:
                    # untagged ANY matches every tag: only unambiguous as a trailing
                    # OPTIONAL/DEFAULT component that is alone in its run
                    if j == i and j == n - 1:
                        break
                    return False
                if ft & seen:
                    return False
                seen |= ft
                if fields[j][2] == 'R':
                    break
                j += 1
        return True
    if k in ('SEQOF', 'SETOF'):
        return legal(T[1])
    if k == 'CHOICE':
        seen = set()
        names = [a[0] for a in T[1]]
        if len(set(names)) != len(names) or not names:
            return False
        for _, alt in T[1]:
            if not legal(alt):
                return False
            ft = first_tags(alt)
            if ft is None or (ft & seen):
                return False
            seen |= ft
        return True
    return True


# ---------------------------------------------------------------------------
# value helpers
# ---------------------------------------------------------------------------

def real_value(v):
    if v in ('inf', '-inf'):
        return v
    m, b, e = v
    return Fraction(m) * (Fraction(b) ** e)


def values_equal(T, a, b):
    """Equality of abstract values (REAL by numeric value, SET OF as multiset)."""
    T = strip_con(T)
    k = T[0]
    if k == 'TAG':
        return values_equal(T[4], a, b)
    if k == 'REAL':
        try:
            ra, rb = real_value(a), real_value(b)
        except Exception:
            return False
        if ra == rb:
            return True
        if isinstance(ra, str) or isinstance(rb, str):
            return False
        # base-10 values travel through a decimal character form and Python floats in
        # the library; they are compared up to float rounding (DESIGN section 2)
        if a[1] == 10 or b[1] == 10:
            return abs(ra - rb) <= Fraction(1, 10 ** 12) * max(abs(ra), abs(rb))
        return False
    if k in ('SEQ', 'SET'):
        if not isinstance(a, dict) or not isinstance(b, dict):
            return False
        if set(a) != set(b):
            return False
        ft = {f[0]: f[1] for f in T[1]}
        return all(values_equal(ft[n], a[n], b[n]) for n in a)
    if k == 'SEQOF':
        if not isinstance(a, list) or not isinstance(b, list) or len(a) != len(b):
            return False
        return all(values_equal(T[1], x, y) for x, y in zip(a, b))
    if k == 'SETOF':
        if not isinstance(a, list) or not isinstance(b, list) or len(a) != len(b):
            return False
        rest = list(b)
        for x in a:
            for i, y in enumerate(rest):
                if values_equal(T[1], x, y):
                    del rest[i]
                    break
            else:
                return False
        return True
    if k == 'CHOICE':
        if not (isinstance(a, tuple) and isinstance(b, tuple) and len(a) == 2 and len(b) == 2):
            return False
        if a[0] != b[0]:
            return False
        alt = dict(T[1])[a[0]]
        return values_equal(alt, a[1], b[1])
    if k == 'BOOL':
        return isinstance(a, bool) and isinstance(b, bool) and a == b
    return type(a) == type(b) and a == b


def str_octets(kind, text):
    return text.encode(STR_KINDS[kind][1])


def str_text(kind, octets):
    try:
        return octets.decode(STR_KINDS[kind][1])
    except UnicodeDecodeError as e:
        raise ReadError('bad characters for %s: %s' % (kind, e))


# ---------------------------------------------------------------------------
# primitive content octets
# ---------------------------------------------------------------------------

def int_octets(n):
    length = 1
    while True:
        try:
            return n.to_bytes(length, 'big', signed=True)
        except OverflowError:
            length += 1


def base128(n):
    out = [n & 0x7F]
    n >>= 7
    while n:
        out.append(0x80 | (n & 0x7F))
        n >>= 7
    return bytes(reversed(out))


def oid_octets(arcs):
    if len(arcs) < 2:
        raise ModelError('OID needs two arcs')
    a, b = arcs[0], arcs[1]
    if a not in (0, 1, 2) or b < 0 or (a < 2 and b > 39):
        raise ModelError('bad first arcs')
    out = base128(a * 40 + b)
    for arc in arcs[2:]:
        if arc < 0:
            raise ModelError('negative arc')
        out += base128(arc)
    return out


def bits_octets(bits):
    n = len(bits)
    pad = (8 - n % 8) % 8
    if n == 0:
        return b'\x00'
    val = int(bits + '0' * pad, 2)
    return bytes([pad]) + val.to_bytes((n + pad) // 8, 'big')


def real_octets_der(v):
    """DER/CER contents octets of a REAL (X.690 8.5 + 11.3); base 10 unsupported here."""
    if v == 'inf':
        return b'\x40'
    if v == '-inf':
        return b'\x41'
    m, b, e = v
    if m == 0:
        return b''
    if b != 2:
        raise ModelError('base-10 REAL is compared by value only')
    if m != int(m):
        raise ModelError('non-integer mantissa')
    m = int(m)
    sign = 0x40 if m < 0 else 0
    m = abs(m)
    while m % 2 == 0:      # 11.3.1: mantissa odd
        m //= 2
        e += 1
    eo = int_octets(e)
    first = 0x80 | sign    # base 2, F = 0
    if len(eo) == 1:
        pass
    elif len(eo) == 2:
        first |= 1
    elif len(eo) == 3:
        first |= 2
    else:
        first |= 3
        eo = bytes([len(eo)]) + eo
    mo = m.to_bytes((m.bit_length() + 7) // 8, 'big')
    return bytes([first]) + eo + mo


def ident_octets(cls, constructed, num):
    first = CLS_BITS[cls] | (0x20 if constructed else 0)
    if num < 31:
        return bytes([first | num])
    return bytes([first | 0x1F]) + base128(num)


def length_octets(n, extra=0, force_long=False):
    """extra: number of superfluous leading zero octets in long form."""
    if n < 128 and not force_long and not extra:
        return bytes([n])
    body = n.to_bytes(max(1, (n.bit_length() + 7) // 8), 'big')
    body = b'\x00' * extra + body
    if len(body) > 126:
        raise ModelError('length too long')
    return bytes([0x80 | len(body)]) + body


EOO = b'\x00\x00'

# ---------------------------------------------------------------------------
# encoder with pluggable policy
# ---------------------------------------------------------------------------


class Policy(object):
    """Answers every X.690 choice point.  The base class is DER."""
    name = 'DER'
    canonical = True     # omit defaults, order SET / SET OF

    def length_form(self, n):
        """-> (extra_zero_octets, force_long)"""
        return 0, False

    def indefinite(self, what):
        """what in ('constructed', 'string', 'explicit')"""
        return False

    def split(self, kind, nocts):
        """-> None for primitive, else a segmentation tree: list of items, item =
        int (number of octets in a primitive segment) or list (nested constructed)."""
        return None

    def true_octet(self):
        return 0xFF

    def set_order(self, tagged):
        """tagged: list of (sorttag, idx); returns list of idx"""
        return [i for _, i in sorted(tagged, key=lambda x: tag_key(x[0]))]

    def setof_order(self, encs):
        m = max(len(x) for x in encs) if encs else 0
        return sorted(range(len(encs)), key=lambda i: encs[i].ljust(m, b'\x00'))

    def default_present(self):
        return False

    choice_static = False   # CER: untagged CHOICE in SET ordered by its smallest tag


class CERPolicy(Policy):
    name = 'CER'
    choice_static = True

    def indefinite(self, what):
        return True

    def split(self, kind, nocts):
        if nocts <= 1000:
            return None
        segs = []
        if kind == 'BITS':
            # every fragment has 1000 contents octets: its own unused-bits octet + 999 data octets
            data = nocts - 1
            while data > 0:
                segs.append(min(999, data) + 1)
                data -= 999
            return segs
        while nocts > 0:
            segs.append(min(1000, nocts))
            nocts -= 1000
        return segs


class PyBERPolicy(Policy):
    """What pyasn1's BER encoder is documented to do for (defMode, maxChunkSize):
    used only to know which *forms* to expect; values are checked with the reader."""
    name = 'BER'
    canonical = False


DER = Policy()
CER = CERPolicy()


class Encoder(object):
    def __init__(self, policy):
        self.p = policy

    # -- framing ----------------------------------------------------------
    def tlv(self, tag, constructed, content, what=None):
        cls, num = tag
        ident = ident_octets(cls, constructed, num)
        if constructed and self.p.indefinite(what or 'constructed'):
            return ident + b'\x80' + content + EOO
        extra, force = self.p.length_form(len(content))
        return ident + length_octets(len(content), extra, force) + content

    # -- strings ----------------------------------------------------------
    def _segments(self, tree, data, segtag, bits_tail=None):
        """Encode data according to the segmentation tree as a sequence of TLVs with
        UNIVERSAL segtag.  For BIT STRING, bits_tail is the unused-bits count that the
        last primitive segment carries (all others carry 0)."""
        out = b''
        pos = 0
        flat = []

        def walk(t):
            for item in t:
                if isinstance(item, list):
                    walk(item)
                else:
                    flat.append(item)
        walk(tree)
        if sum(flat) != len(data):
            raise ModelError('segmentation does not cover data')
        counter = [0, len(flat)]

        def emit(t):
            nonlocal pos
            res = b''
            for item in t:
                if isinstance(item, list):
                    res += self.tlv(segtag, True, emit(item), 'string')
                else:
                    chunk = data[pos:pos + item]
                    pos += item
                    counter[0] += 1
                    if bits_tail is not None:
                        lead = bits_tail if counter[0] == counter[1] else 0
                        chunk = bytes([lead]) + chunk
                    res += self.tlv(segtag, False, chunk)
            return res
        return emit(tree)

    def string(self, tag, kind, content):
        """content: full contents octets of the primitive form."""
        if kind == 'BITS':
            data = content[1:]
            tree = self.p.split('BITS', len(content))
            if tree is None:
                return self.tlv(tag, False, content)
            # tree sizes are expressed in *contents* octets of each fragment including
            # the leading unused-bits octet (X.690 9.2: 1000 contents octets each)
            tree2 = self._bits_tree(tree)
            inner = self._segments(tree2, data, ('U', 3), bits_tail=content[0])
            return self.tlv(tag, True, inner, 'string')
        tree = self.p.split(kind, len(content))
        if tree is None:
            return self.tlv(tag, False, content)
        inner = self._segments(tree, content, ('U', 4))
        return self.tlv(tag, True, inner, 'string')

    @staticmethod
    def _bits_tree(tree):
        out = []
        for item in tree:
            if isinstance(item, list):
                out.append(Encoder._bits_tree(item))
            else:
                out.append(item - 1)
        return out

    # -- values -----------------------------------------------------------
    def enc(self, T, v, outer=None):
        k = T[0]
        if k == 'CON':
            return self.enc(T[2], v, outer)
        if k == 'TAG':
            _, mode, cls, num, inner = T
            me = outer or (cls, num)
            if mode == 'E' or is_untagged(inner):
                return self.explicit(me, inner, self.enc(inner, v))
            return self.enc(inner, v, me)
        if k == 'ANY':
            if outer is not None:
                raise ModelError('implicit tag over ANY')
            return bytes(v)
        if k == 'CHOICE':
            if outer is not None:
                raise ModelError('implicit tag over CHOICE')
            name, av = v
            return self.enc(dict(T[1])[name], av)
        tag = outer or univ_tag(T)
        if k == 'BOOL':
            return self.tlv(tag, False, bytes([self.p.true_octet() if v else 0]))
        if k in ('INT', 'ENUM'):
            return self.tlv(tag, False, int_octets(v))
        if k == 'NULL':
            return self.tlv(tag, False, b'')
        if k == 'OID':
            return self.tlv(tag, False, oid_octets(v))
        if k == 'REAL':
            return self.tlv(tag, False, real_octets_der(v))
        if k == 'BITS':
            return self.string(tag, 'BITS', bits_octets(v))
        if k == 'OCTS':
            return self.string(tag, 'OCTS', bytes(v))
        if k == 'STR':
            return self.string(tag, 'STR', str_octets(T[1], v))
        if k == 'SEQ':
            return self.tlv(tag, True, b''.join(e for _, e in self.members(T, v)))
        if k == 'SET':
            mem = self.members(T, v)
            order = self.p.set_order([(st, i) for i, (st, _) in enumerate(mem)])
            return self.tlv(tag, True, b''.join(mem[i][1] for i in order))
        if k == 'SEQOF':
            return self.tlv(tag, True, b''.join(self.enc(T[1], x) for x in v))
        if k == 'SETOF':
            encs = [self.enc(T[1], x) for x in v]
            order = self.p.setof_order(encs)
            return self.tlv(tag, True, b''.join(encs[i] for i in order))
        raise ModelError('unknown type %r' % (T,))

    def explicit(self, tag, inner, content):
        return self.tlv(tag, True, content, 'explicit')

    def omit_member(self, ft, opt, cv, encoding):
        """hook: extra omission rule (none in X.690)"""
        return False

    def members(self, T, v):
        """list of (sort tag, encoding) of the components that are encoded"""
        out = []
        names = set()
        for name, ft, opt, dflt in T[1]:
            names.add(name)
            if name not in v:
                if opt == 'O':
                    continue
                if opt == 'D':
                    raise ModelError('DEFAULT component %s not materialised' % name)
                raise ModelError('missing required component %s' % name)
            cv = v[name]
            if opt == 'D' and values_equal(ft, cv, thaw(dflt)):
                if not self.p.default_present():
                    continue
            e = self.enc(ft, cv)
            if self.omit_member(ft, opt, cv, e):
                continue
            out.append((self.sort_tag(ft, cv, T[0] == 'SET'), e))
        if set(v) - names:
            raise ModelError('unknown component names %r' % (set(v) - names,))
        return out

    def sort_tag(self, ft, cv, need):
        if not need:
            return None
        ft = strip_con(ft)
        if ft[0] == 'CHOICE':
            if self.p.choice_static:
                return min_tag(ft)
            return self.sort_tag(dict(ft[1])[cv[0]], cv[1], True)
        return tag_stack(ft)[0]


def der(T, v):
    return Encoder(DER).enc(T, v)


def cer(T, v):
    return Encoder(CER).enc(T, v)


# ---------------------------------------------------------------------------
# choice-point driven BER encoder (for C09/C15)
# ---------------------------------------------------------------------------

class ChoicePolicy(Policy):
    """Every X.690 choice point asks chooser(n, label) -> int in [0, n); 0 = DER."""
    name = 'BERFORMS'
    canonical = False

    def __init__(self, chooser, max_split=4, nested=True, long_len=True, indef=True,
                 true_octets=(0xFF, 0x01, 0x80), perms=True, defaults=True, splits=True):
        self.c = chooser
        self.max_split = max_split
        self.nested = nested
        self.long_len = long_len
        self.indef = indef
        self.true_octets = true_octets
        self.perms = perms
        self.defaults = defaults
        self.splits = splits

    def length_form(self, n):
        if not self.long_len:
            return 0, False
        r = self.c(5, 'len')
        if r == 0:
            return 0, False
        if r == 1:
            return 0, True       # long form, minimal number of octets
        if r == 2:
            return 1, True       # long form with one superfluous leading zero octet
        body = max(1, (n.bit_length() + 7) // 8)
        if r == 3:
            return 9 - body if body < 9 else 1, True      # nine length octets: more than a machine word
        return 126 - body, True  # the longest length field X.690 8.1.3.5 allows

    def indefinite(self, what):
        if not self.indef:
            return False
        return self.c(2, 'indef:' + what) == 1

    def split(self, kind, nocts):
        if not self.splits:
            return None
        # forms: 0 primitive; 1 single segment holding everything; then 2-way splits at
        # every position (bounded); then one nested form
        data_len = nocts - 1 if kind == 'BITS' else nocts
        forms = [None]
        unit = 1 if kind == 'BITS' else 0

        def seg(n):   # size of a fragment holding n data octets (BITS counts lead octet)
            return n + unit
        forms.append([seg(data_len)])
        forms.append([])       # constructed with zero segments is legal only for empty data
        if data_len > 0:
            forms.pop()
        cuts = [p for p in range(0, data_len + 1)][: self.max_split + 1]
        for p in cuts:
            if kind == 'BITS' and (p == data_len or p == 0):
                # an empty non-final fragment is legal ("00" lead octet, no data); an
                # empty *final* fragment would need unused-bits 0 - only legal when the
                # value's own unused-bits count is 0; keep the model simple: skip
                continue
            forms.append([seg(p), seg(data_len - p)])
        if self.nested and data_len >= 1:
            p = min(1, data_len)
            if kind != 'BITS' or (0 < p < data_len):
                forms.append([[seg(p)], seg(data_len - p)])
            else:
                forms.append([[seg(data_len)]])
        r = self.c(len(forms), 'split')
        return forms[r]

    def true_octet(self):
        return self.true_octets[self.c(len(self.true_octets), 'true')]

    def set_order(self, tagged):
        base = Policy.set_order(self, tagged)
        if not self.perms or len(base) < 2:
            return base
        import itertools
        perms = list(itertools.permutations(base))
        return list(perms[self.c(len(perms), 'perm')])

    def setof_order(self, encs):
        base = Policy.setof_order(self, encs)
        if not self.perms or len(base) < 2:
            return base
        import itertools
        perms = list(itertools.permutations(base))
        return list(perms[self.c(len(perms), 'perm')])

    def default_present(self):
        if not self.defaults:
            return False
        return self.c(2, 'default') == 1


def ber_form(T, v, chooser, **kw):
    return Encoder(ChoicePolicy(chooser, **kw)).enc(T, v)


# ---------------------------------------------------------------------------
# schema-less TLV parser
# ---------------------------------------------------------------------------

class Node(object):
    __slots__ = ('cls', 'constructed', 'num', 'indef', 'start', 'hdr_end', 'end',
                 'content', 'children', 'len_octets')

    def tag(self):
        return (self.cls, self.num)


def parse_header(data, pos, end):
    """-> (cls, constructed, num, length or None, pos_after_header, raw length octets)"""
    if pos >= end:
        raise ReadError('truncated identifier')
    first = data[pos]
    pos += 1
    cls = BITS_CLS[first & 0xC0]
    constructed = bool(first & 0x20)
    num = first & 0x1F
    if num == 0x1F:
        num = 0
        n = 0
        while True:
            if pos >= end:
                raise ReadError('truncated long tag')
            b = data[pos]
            pos += 1
            if n == 0 and b == 0x80:
                raise ReadError('non-minimal long tag')
            num = (num << 7) | (b & 0x7F)
            n += 1
            if not b & 0x80:
                break
    if pos >= end:
        raise ReadError('truncated length')
    lo = data[pos]
    lstart = pos
    pos += 1
    if lo < 0x80:
        length = lo
    elif lo == 0x80:
        length = None
        if not constructed:
            raise ReadError('indefinite length on primitive encoding')
    elif lo == 0xFF:
        raise ReadError('reserved length octet')
    else:
        n = lo & 0x7F
        if pos + n > end:
            raise ReadError('truncated long length')
        length = int.from_bytes(data[pos:pos + n], 'big')
        pos += n
    return cls, constructed, num, length, pos, data[lstart:pos]


def parse_node(data, pos, end, depth=0):
    if depth > 64:
        raise ReadError('too deep')
    n = Node()
    n.start = pos
    n.cls, n.constructed, n.num, length, p, n.len_octets = parse_header(data, pos, end)
    n.hdr_end = p
    n.indef = length is None
    n.children = None
    if length is not None:
        if p + length > end:
            raise ReadError('truncated contents')
        n.end = p + length
        n.content = data[p:n.end]
        if n.constructed:
            n.children = []
            q = p
            while q < n.end:
                c = parse_node(data, q, n.end, depth + 1)
                n.children.append(c)
                q = c.end
    else:
        n.children = []
        q = p
        while True:
            if q + 2 <= end and data[q:q + 2] == EOO:
                n.content = data[p:q]
                n.end = q + 2
                break
            c = parse_node(data, q, end, depth + 1)
            n.children.append(c)
            q = c.end
    return n


def tlv_tree(data):
    """Parse exactly one TLV covering all of data."""
    n = parse_node(data, 0, len(data))
    if n.end != len(data):
        raise ReadError('trailing octets')
    return n


# ---------------------------------------------------------------------------
# schema-guided reader
# ---------------------------------------------------------------------------

def _string_content(node, segnum, bits=False):
    """Reassemble (possibly nested) constructed string.  For bits returns a '01' str."""
    if not node.constructed:
        if bits:
            return _bits_from(node.content)
        return node.content
    acc_bits = ''
    acc = b''
    kids = node.children
    for i, c in enumerate(kids):
        if c.tag() != ('U', segnum):
            raise ReadError('string segment with tag %r' % (c.tag(),))
        part = _string_content(c, segnum, bits)
        if bits:
            if i != len(kids) - 1 and len(part) % 8:
                raise ReadError('non-final BIT STRING segment with unused bits')
            acc_bits += part
        else:
            acc += part
    return acc_bits if bits else acc


def _bits_from(content):
    if not content:
        raise ReadError('empty BIT STRING contents')
    pad = content[0]
    if pad > 7:
        raise ReadError('unused bits > 7')
    body = content[1:]
    if not body:
        if pad:
            raise ReadError('unused bits on empty BIT STRING')
        return ''
    bits = bin(int.from_bytes(body, 'big'))[2:].zfill(len(body) * 8)
    return bits[:len(bits) - pad] if pad else bits


def _real_from(content):
    if not content:
        return (0, 10, 0)
    fo = content[0]
    if fo & 0x80:
        n = (fo & 3) + 1
        rest = content[1:]
        if n == 4:
            if not rest:
                raise ReadError('short REAL')
            n = rest[0]
            rest = rest[1:]
        eo, mo = rest[:n], rest[n:]
        if len(eo) != n or not eo:
            raise ReadError('short REAL exponent')
        e = int.from_bytes(eo, 'big', signed=True)
        base = (fo >> 4) & 3
        if base == 3:
            raise ReadError('reserved REAL base')
        e *= (1, 3, 4)[base]
        m = int.from_bytes(mo, 'big')
        m <<= (fo >> 2) & 3
        if fo & 0x40:
            m = -m
        return (m, 2, e)
    if fo & 0x40:
        if fo == 0x40 and len(content) == 1:
            return 'inf'
        if fo == 0x41 and len(content) == 1:
            return '-inf'
        raise ReadError('unsupported special REAL')
    # decimal
    text = content[1:].decode('ascii', 'replace').strip()
    try:
        fr = Fraction(text.replace(',', '.'))
    except Exception:
        raise ReadError('bad decimal REAL %r' % text)
    # represent exactly as (m, 10, e)
    e = 0
    while fr.denominator != 1:
        fr *= 10
        e -= 1
        if e < -400:
            raise ReadError('bad decimal REAL')
    return (int(fr), 10, e)


def _oid_from(content):
    if not content:
        raise ReadError('empty OID')
    arcs = []
    cur = 0
    start = True
    for b in content:
        if start and b == 0x80:
            raise ReadError('non-minimal OID arc')
        start = False
        cur = (cur << 7) | (b & 0x7F)
        if not b & 0x80:
            arcs.append(cur)
            cur = 0
            start = True
    if not start:
        raise ReadError('truncated OID arc')
    f = arcs[0]
    if f < 40:
        head = (0, f)
    elif f < 80:
        head = (1, f - 40)
    else:
        head = (2, f - 80)
    return head + tuple(arcs[1:])


class Reader(object):
    def __init__(self, data):
        self.data = bytes(data)

    def read_top(self, T):
        node = tlv_tree(self.data)
        return self.value(T, node)

    def value(self, T, node, outer=None):
        k = T[0]
        if k == 'CON':
            return self.value(T[2], node, outer)
        if k == 'TAG':
            _, mode, cls, num, inner = T
            me = outer or (cls, num)
            if mode == 'E' or is_untagged(inner):
                if node.tag() != me:
                    raise ReadError('expected explicit tag %r got %r' % (me, node.tag()))
                if not node.constructed:
                    raise ReadError('explicit tag must be constructed')
                if len(node.children) != 1:
                    raise ReadError('explicit wrapper must hold one TLV')
                return self.value(inner, node.children[0])
            return self.value(inner, node, me)
        if k == 'ANY':
            return self.data[node.start:node.end]
        if k == 'CHOICE':
            for name, alt in T[1]:
                ft = first_tags(alt)
                if ft is None or node.tag() in ft:
                    return (name, self.value(alt, node))
            raise ReadError('no CHOICE alternative for tag %r' % (node.tag(),))
        tag = outer or univ_tag(T)
        if node.tag() != tag:
            raise ReadError('expected tag %r got %r' % (tag, node.tag()))
        if k in ('BOOL', 'INT', 'ENUM', 'NULL', 'OID', 'REAL'):
            if node.constructed:
                raise ReadError('%s must be primitive' % k)
            c = node.content
            if k == 'BOOL':
                if len(c) != 1:
                    raise ReadError('BOOLEAN length')
                return c[0] != 0
            if k in ('INT', 'ENUM'):
                if not c:
                    raise ReadError('empty INTEGER')
                return int.from_bytes(c, 'big', signed=True)
            if k == 'NULL':
                if c:
                    raise ReadError('NULL with contents')
                return None
            if k == 'OID':
                return _oid_from(c)
            return _real_from(c)
        if k == 'BITS':
            return _string_content(node, 3, bits=True)
        if k == 'OCTS':
            return _string_content(node, 4)
        if k == 'STR':
            return str_text(T[1], _string_content(node, 4))
        if not node.constructed:
            raise ReadError('%s must be constructed' % k)
        kids = node.children
        if k == 'SEQOF' or k == 'SETOF':
            return [self.value(T[1], c) for c in kids]
        if k == 'SEQ':
            out = {}
            i = 0
            for name, ft, opt, dflt in T[1]:
                tags = first_tags(ft)
                if i < len(kids) and (tags is None or kids[i].tag() in tags):
                    out[name] = self.value(ft, kids[i])
                    i += 1
                elif opt == 'O':
                    pass
                elif opt == 'D':
                    out[name] = thaw(dflt)
                else:
                    raise ReadError('missing component %s' % name)
            if i != len(kids):
                raise ReadError('excess components')
            return out
        if k == 'SET':
            out = {}
            for c in kids:
                for name, ft, opt, dflt in T[1]:
                    tags = first_tags(ft)
                    if c.tag() in tags:
                        if name in out:
                            raise ReadError('duplicate SET member %s' % name)
                        out[name] = self.value(ft, c)
                        break
                else:
                    raise ReadError('unknown SET member tag %r' % (c.tag(),))
            for name, ft, opt, dflt in T[1]:
                if name not in out:
                    if opt == 'D':
                        out[name] = thaw(dflt)
                    elif opt == 'R':
                        raise ReadError('missing SET member %s' % name)
            return out
        raise ModelError('unknown type %r' % (T,))


def read(T, data):
    return Reader(data).read_top(T)


# ---------------------------------------------------------------------------
# canonical-form rule checkers on TLV trees
# ---------------------------------------------------------------------------

def minimal_length(node):
    lo = node.len_octets
    if node.indef:
        return True
    n = node.end - node.hdr_end
    return lo == length_octets(n)


def cer_rules(T, data):
    """Return list of rule violations of CER output for type T (guided walk)."""
    bad = []
    root = tlv_tree(data)

    def walk_any(node):
        if node.constructed != node.indef:
            bad.append('indefinite<=>constructed violated at %d' % node.start)
        if not minimal_length(node):
            bad.append('non-minimal length at %d' % node.start)
        for c in node.children or ():
            walk_any(c)

    walk_any_done = set()

    def walk(T, node, outer=None):
        T = strip_con(T)
        k = T[0]
        if k == 'TAG':
            _, mode, cls, num, inner = T
            if mode == 'E' or is_untagged(inner):
                check_frame(node)
                if node.children and len(node.children) == 1:
                    walk(inner, node.children[0])
                return
            return walk(inner, node, (cls, num))
        if k == 'ANY':
            return
        if k == 'CHOICE':
            for name, alt in T[1]:
                ft = first_tags(alt)
                if ft is None or node.tag() in ft:
                    return walk(alt, node)
            return
        check_frame(node)
        if k == 'BOOL':
            if node.content not in (b'\x00', b'\xff'):
                bad.append('BOOLEAN octet %r' % node.content)
        elif k in STRING_KINDS:
            if node.constructed:
                kids = node.children
                for i, c in enumerate(kids):
                    check_frame(c)
                    if c.constructed:
                        bad.append('nested constructed string segment')
                    n = c.end - c.hdr_end
                    if i < len(kids) - 1 and n != 1000:
                        bad.append('non-final string segment of %d contents octets' % n)
                    if i == len(kids) - 1 and not (0 < n <= 1000):
                        bad.append('final string segment of %d contents octets' % n)
                total = sum(c.end - c.hdr_end for c in kids)
                if k == 'BITS':
                    total -= max(0, len(kids) - 1)
                if total <= 1000:
                    bad.append('constructed string of only %d octets' % total)
            else:
                if len(node.content) > 1000:
                    bad.append('primitive string of %d octets' % len(node.content))
        elif k in ('SEQ', 'SET'):
            kids = list(node.children)
            fields = T[1]
            if k == 'SET':
                keys = []
                for c in kids:
                    for name, ft, opt, dflt in fields:
                        if c.tag() in (first_tags(ft) or ()):
                            keys.append(tag_key(min_tag(ft)))
                            walk(ft, c)
                            break
                if keys != sorted(keys):
                    bad.append('SET members not in static tag order')
            else:
                i = 0
                for name, ft, opt, dflt in fields:
                    tags = first_tags(ft)
                    if i < len(kids) and (tags is None or kids[i].tag() in tags):
                        walk(ft, kids[i])
                        i += 1
        elif k in ('SEQOF', 'SETOF'):
            kids = node.children
            for c in kids:
                walk(T[1], c)
            if k == 'SETOF' and len(kids) > 1:
                encs = [data[c.start:c.end] for c in kids]
                m = max(len(e) for e in encs)
                padded = [e.ljust(m, b'\x00') for e in encs]
                if padded != sorted(padded):
                    bad.append('SET OF members not sorted')

    def check_frame(node):
        if node.constructed != node.indef:
            bad.append('indefinite<=>constructed violated at offset %d' % node.start)
        if not minimal_length(node):
            bad.append('non-minimal length at offset %d' % node.start)

    walk(T, root)
    return bad


def der_rules_tree(data):
    """Schema-less DER form rules: definite minimal lengths everywhere."""
    bad = []

    def walk(node):
        if node.indef:
            bad.append('indefinite length at %d' % node.start)
        if not minimal_length(node):
            bad.append('non-minimal length at %d' % node.start)
        for c in node.children or ():
            walk(c)
    walk(tlv_tree(data))
    return bad


# ---------------------------------------------------------------------------
# well-typedness of abstract values (used by C10 and by generators' self-check)
# ---------------------------------------------------------------------------

def welltyped(T, v):
    """True iff v is a complete abstract value of T (constraints in CON included)."""
    k = T[0]
    if k == 'CON':
        from . import constraints as C
        return welltyped(T[2], v) and C.admits(T[1], T[2], v)
    if k == 'TAG':
        return welltyped(T[4], v)
    if k == 'BOOL':
        return isinstance(v, bool)
    if k == 'INT':
        return isinstance(v, int) and not isinstance(v, bool)
    if k == 'ENUM':
        return isinstance(v, int) and not isinstance(v, bool)
    if k == 'BITS':
        return isinstance(v, str) and set(v) <= {'0', '1'}
    if k == 'OCTS':
        return isinstance(v, bytes)
    if k == 'NULL':
        return v is None
    if k == 'OID':
        return (isinstance(v, tuple) and len(v) >= 2 and all(isinstance(a, int) and a >= 0 for a in v)
                and v[0] in (0, 1, 2) and (v[0] == 2 or v[1] < 40))
    if k == 'REAL':
        if v in ('inf', '-inf'):
            return True
        return isinstance(v, tuple) and len(v) == 3 and v[1] in (2, 10)
    if k == 'STR':
        if not isinstance(v, str):
            return False
        try:
            str_octets(T[1], v)
        except UnicodeEncodeError:
            return False
        return True
    if k == 'ANY':
        # an ANY value is one complete TLV; what a definite-length TLV holds inside is opaque to the type
        if not isinstance(v, bytes):
            return False
        try:
            h = parse_header(v, 0, len(v))
            if h[3] is not None:
                return h[4] + h[3] == len(v)
            tlv_tree(v)
        except ReadError:
            return False
        return True
    if k in ('SEQ', 'SET'):
        if not isinstance(v, dict):
            return False
        names = set()
        for name, ft, opt, dflt in T[1]:
            names.add(name)
            if name in v:
                if not welltyped(ft, v[name]):
                    return False
            elif opt != 'O':
                return False
        return set(v) <= names
    if k in ('SEQOF', 'SETOF'):
        return isinstance(v, list) and all(welltyped(T[1], x) for x in v)
    if k == 'CHOICE':
        if not (isinstance(v, tuple) and len(v) == 2):
            return False
        alts = dict(T[1])
        return v[0] in alts and welltyped(alts[v[0]], v[1])
    return False


# ---------------------------------------------------------------------------
# JSON helpers (descriptors and values contain bytes / tuples)
# ---------------------------------------------------------------------------

def to_json(x):
    if isinstance(x, bytes):
        return {'hex': x.hex()}
    if isinstance(x, tuple):
        return {'t': [to_json(i) for i in x]}
    if isinstance(x, list):
        return [to_json(i) for i in x]
    if isinstance(x, dict):
        return {'d': [[k, to_json(v)] for k, v in x.items()]}
    if isinstance(x, Fraction):
        return {'frac': [x.numerator, x.denominator]}
    return x


def from_json(x):
    if isinstance(x, dict):
        if 'hex' in x:
            return bytes.fromhex(x['hex'])
        if 't' in x:
            return tuple(from_json(i) for i in x['t'])
        if 'd' in x:
            return {k: from_json(v) for k, v in x['d']}
        if 'frac' in x:
            return Fraction(*x['frac'])
    if isinstance(x, list):
        return [from_json(i) for i in x]
    return x


def show_type(T):
    """Compact ASN.1-like rendering for messages."""
    k = T[0]
    if k == 'CON':
        return '%s (%s)' % (show_type(T[2]), T[1],)
    if k == 'TAG':
        cls = {'A': 'APPLICATION ', 'C': '', 'P': 'PRIVATE ', 'U': 'UNIVERSAL '}[T[2]]
        return '[%s%d] %s %s' % (cls, T[3], 'IMPLICIT' if T[1] == 'I' else 'EXPLICIT', show_type(T[4]))
    if k in ('SEQ', 'SET'):
        parts = []
        for name, ft, opt, dflt in T[1]:
            s = '%s %s' % (name, show_type(ft))
            if opt == 'O':
                s += ' OPTIONAL'
            elif opt == 'D':
                s += ' DEFAULT %r' % (thaw(dflt),)
            parts.append(s)
        return '%s { %s }' % ('SEQUENCE' if k == 'SEQ' else 'SET', ', '.join(parts))
    if k in ('SEQOF', 'SETOF'):
        return '%s OF %s' % ('SEQUENCE' if k == 'SEQOF' else 'SET', show_type(T[1]))
    if k == 'CHOICE':
        return 'CHOICE { %s }' % ', '.join('%s %s' % (n, show_type(t)) for n, t in T[1])
    if k == 'STR':
        return T[1]
    if k == 'ENUM':
        return 'ENUMERATED'
    return {'BOOL': 'BOOLEAN', 'INT': 'INTEGER', 'BITS': 'BIT STRING', 'OCTS': 'OCTET STRING',
            'NULL': 'NULL', 'OID': 'OBJECT IDENTIFIER', 'REAL': 'REAL', 'ANY': 'ANY'}[k]
