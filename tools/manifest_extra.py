add('C04', 'model_checking', 'exhaustive enumeration of construction histories on the real objects (explicit-state, differential oracle)',
    'All construction histories of a bounded alphabet (assignment orders, explicit/implicit defaults, clone, decode-from-BER-form, interleaved read-only operations) per (type, value); every history must give identical DER/CER bytes; decode/re-encode fixpoint.',
    'states = distinct raw object shapes reached; differential oracle, no reference encoder needed; ' + TB, 'DESIGN.md 4/C04')
add('C05', 'fault_enumeration', 'deviation-bounded stateless exploration of read() answers + exhaustive arrival partitions on the real StreamingDecoder',
    'Every execution with <= d non-default environment answers (pending poll / short read) per read() call and every arrival partition of short streams, on three stream kinds; objects, order, underrun legitimacy, errors, positions and termination compared with the undisturbed run.',
    'stream doubles mc/env/streams.py own every read/seek/tell; ' + TB, 'DESIGN.md 4/C05')
add('C06', 'fault_enumeration', 'exhaustive enumeration of every cut point of every corpus encoding (three presentations)',
    'Every proper prefix of every corpus encoding as bytes, as a seekable stream and as a closing non-blocking stream must be reported as insufficient data.',
    'prefix-freeness asserted per case with the reference parser; ' + TB, 'DESIGN.md 4/C06')
add('C08', 'fault_enumeration', 'exhaustive enumeration of all short strings over a structural alphabet + complete 1-mutation neighbourhoods',
    'Every byte string up to length L over 27 structural octets and every single mutation of every seed encoding, x decoders x modes x guiding types: only library errors or proper values, bounded steps.',
    'SIGALRM watchdog per case; ' + TB, 'DESIGN.md 4/C08')
add('C09', 'exploration', 'deviation-bounded exploration of the X.690 choice points of an independent BER encoder, decoded by the real decoder',
    'Every BER form with <= d departures from DER (length forms, indefinite, segmentation, TRUE octet, permutations, defaults) of every universe value must decode to the value.',
    'generator and reader of the reference model guard each other; ' + TB, 'DESIGN.md 4/C09')
add('C10', 'fault_enumeration', 'exhaustive enumeration of valid / neighbouring / single-mutation inputs under constrained guiding types',
    'Whenever a decoder returns a value for any enumerated input, the value must be complete, satisfy all constraints per an independent evaluator and survive an encode/decode fixpoint.',
    'independent evaluators welltyped()/constraints.py; ' + TB, 'DESIGN.md 4/C10')
add('C11', 'model_checking', 'explicit-state BFS of the real CachingStreamWrapper against io.BytesIO + exhaustive substrate-kind product',
    'BFS over read/peek/tell/mark/seek histories of the wrapper (depth 6/8) compared step by step with BytesIO; every corpus input presented as 9 substrate kinds x buffer sizes must give identical results.',
    'io.DEFAULT_BUFFER_SIZE patched in-process; ' + TB, 'DESIGN.md 4/C11')
add('C12', 'model_checking', 'exhaustive call histories + exhaustive generator interleavings + preemption-bounded exhaustive thread schedules on the real codecs',
    'All call sequences up to length 3/4 sharing schema/value objects, all interleavings of 2 suspended streaming decoders, all 2-thread schedules with <= 2/3 preemptions at shared-field accesses; every outcome equals the isolated run; schema/value snapshots unchanged; no aliasing.',
    'thread scheduling points limited to instrumented shared-field accesses (harness-side monkeypatching); ' + TB, 'DESIGN.md 4/C12')
add('C13', 'exploration', 'exhaustive enumeration of tag stacks and of every single-position perturbation',
    'Every tag stack up to depth 2/3 over every base type: tag algebra, identifier octets on the wire, acceptance, and rejection of every near-miss type the independent reader rejects.',
    TB, 'DESIGN.md 4/C13')
add('C14', 'exploration', 'exhaustive enumeration of constraint expression trees x candidate values and of value-producing operations',
    'All constraint expressions up to depth 3/4 evaluated on all candidates against a set-theoretic evaluator; all value-producing operations on constrained scalars; derivation chains; constrained constructed values at every encoder.',
    'reference evaluator mc/model/constraints.py', 'DESIGN.md 4/C14')
add('C15', 'fault_enumeration', 'exhaustive single-deviation enumeration of non-canonical rewrites of DER encodings',
    'Every single non-canonical rewrite (indefinite length, constructed string, non-FF TRUE) at every node of every universe DER encoding must be rejected by the DER/CER decoders with and without a guiding type.',
    TB, 'DESIGN.md 4/C15')
add('C16', 'exploration', 'bounded exhaustive enumeration of self-describing encodings decoded without schema',
    'Every eligible universe value: schemaless decode returns a value object, DER re-encodes identically, scalar leaves equal the reference reading, for DER/BER/CER inputs.',
    TB, 'DESIGN.md 4/C16')
add('C17', 'exploration', 'bounded exhaustive enumeration over the native codec and the Python-value encoder path',
    'Every universe value: native round trip preserves abstract content; encode(Python tree, asn1Spec) equals encode(value object) for BER/CER/DER.',
    TB, 'DESIGN.md 4/C17')
add('C18', 'exploration', 'exhaustive product of open-type configurations on the real codecs',
    'Full product of container x governor x field shape x inner type/value x mapped/unmapped x codec x resolution on/off x override: resolved value or verbatim complete inner encoding.',
    TB, 'DESIGN.md 4/C18')
add('C19', 'model_checking', 'explicit-state BFS over container operation histories against list/dict models',
    'BFS to depth 4/5 over the public container API of 8 container subjects, every transition checked against a Python list/dict model and the reference DER; plus all dunders on valueless scalars.',
    'list/dict models as fixed in DESIGN.md; ' + TB, 'DESIGN.md 4/C19')
add('C20', 'exploration', 'exhaustive grids of datetimes and of X.680 time strings',
    'Full grid of datetimes x offsets x sub-seconds round-tripped; every grammar string encoded by CER/DER must be refused or canonical and denote the same instant per an independent X.680 reader.',
    'independent reader mc/model/time680.py', 'DESIGN.md 4/C20')
