#!/usr/bin/env python3
"""Attach the history of each seeded change (which check missed it first and what was strengthened) to its meta.json.
The evaluation scripts rewrite meta.json, so the notes live here and are re-applied after every evaluation."""
import json
import os
ROOT = os.path.dirname(os.path.dirname(os.path.abspath(__file__)))
NOTES = {
    # wave 2, second half
    'C03-w2a': 'patch ported by hand to the repaired _dropFloatingPoint (the repair of the float-mantissa defect touched the same lines)',
    'C03-w2b': 'first run: reported by no check (C08 fired only through a load-induced watchdog false alarm, since removed: CPU-time watchdog). C03 now requires DER/CER bytes to be independent of caller defMode/maxChunkSize options',
    'C08-w2b': 'first run: reported by no check. C08 family (a4) added: string types x text invalid for the character set x fragment nesting',
    'C13-w2a': 'first run: C01 C03 only. C13 now compares wire identifiers under CER and BER indefinite / maxChunkSize=1 modes',
    'C14-w2a': 'reported by C14 part (e) (BIT STRING under size constraints, operand validated immediately before each operation), written after reading the C14 statement again and before this change was evaluated',
    'C14-w2b': 'first pre-check: missed (n-ary exclusion was excluded by an assumption). The constraint model now gives ConstraintsExclusion(a, b) the complement of the union',
    'C10-w2a': 'first pre-check: missed. C10 got record types with an open type field under WITH COMPONENTS',
    'C10-w2b': 'first pre-check: missed. C10 got types built from union / 1- and 2-operand exclusion',
    'C15-w2b': 'first pre-check: missed. C15 now places every single rewrite inside an open type field that the DER/CER decoder resolves',
    'C16-w2a': 'first pre-check: missed. Universe got SETs whose tag order differs from the byte order of the member encodings',
    'C17-w2b': 'first pre-check: missed (py_tree writes NULL as the empty string). C17 clause (3): the tree produced by the native encoder (NULL = None) fed to the value-plus-schema path',
    'C18-w2a': 'first run: reported by no check. C18 mode: schema map filled in after the schema was built',
    'C18-w2b': 'first run: reported by no check. C18 mode: caller map silent about the governing value (schema map must answer)',
    'C20-w2b': 'first pre-check: missed and 66 cases were wrongly attributed to T1. The T1 emulation now includes the length window of the encoder (what falls outside is refused, never emitted)',
    # wave 3
    'C04-w3a': 'first pre-check: missed. C04 route: REAL value objects carrying the BER encoding-base hint',
    'C07-w3b': 'first pre-check: missed. C07 streaming clause now also runs over a seekable non-BytesIO stream and over a source that cannot seek',
    'C09-w3a': 'first pre-check: missed. BER choice point "length form" now also offers 9 and 126 length octets',
    'C10-w3b': 'first pre-check: missed. C10 got SIZE constraints given through the legacy sizeSpec keyword of subtype() / clone() / the constructor',
    'C11-w3b': 'first pre-check: missed. C11 substrate kinds: unbuffered io.RawIOBase that cannot seek, unbuffered disk file',
    'C12-w3a': 'first pre-check: missed. C12 scenario with present-but-empty OPTIONAL containers (debug on/off must agree)',
    'C12-w3b': 'first pre-check: missed. C12 alphabet: BER decode with a caller-supplied tagMap, BER decode of a BER-only form (TRUE = 01)',
    'C14-w3a': 'first pre-check: missed. C14 negative direction also assigns into a record that has an open type field elsewhere',
    'C14-w3b': 'first pre-check: missed. C14: native decoding as a value-producing operation for INTEGER, strings and BIT STRING (value and schema templates)',
    'C15-w3b': 'first pre-check: missed. Universe got the synonym classes T61String / ISO646String',
    'C17-w3a': 'first pre-check: missed. Universe got DEFAULT members of BIT STRING / OID / REAL / ENUMERATED type',
    'C18-w3a': 'first pre-check: missed. C18 dimension: open type field declared OPTIONAL (and present)',
    'C18-w3b': 'first pre-check: missed. C18 dimension: governing field DEFAULT and holding its default',
    'C20-w3a': 'patch ported by hand to the repaired fromDateTime (year padding touched the same lines); reported by C20',
    'C20-w3b': 'NOT reported, by design: the change makes asDateTime refuse "-hh" offsets on strings that fromDateTime never produces; C20 as stated speaks of datetime -> time type -> datetime and of the CER/DER encoders, not of reading arbitrary X.680 strings',
    # wave 4
    'C01-w4a': 'first pre-check: missed. Universe: explicitly tagged CHOICE whose own tag number is re-used by an alternative one level down',
    'C01-w4b': 'first pre-check: missed. Universe: wide shallow values (150 constructed members / constructed strings in one encoding)',
    'C03-w4b': 'first pre-check: missed. Universe: SETs mixing tag numbers below and above 31 / 64 / 128 and classes',
    'C04-w4a': 'first run: missed (the pre-check hit was a false positive of my own - an extreme base-10 REAL in the universe, since removed). C04: read-only use of a record held as a component (every member, values(), its own encoding); universe: DEFAULT record holding OPTIONAL constructed members',
    'C04-w4b': 'not reported by C04: a per-call option that sticks to the codec singleton is a purity matter. Reported by C12, whose alphabet has calls carrying omitEmptyOptionals',
    'C05-w4b': 'first pre-check: missed by C05 (needs another decode between polls). C12 part B now interleaves decoders of DIFFERENT values of one type (bit strings with different unused-bit counts), which reports it',
    'C07-w4a': 'first pre-check: missed. Universe: ANY values that are indefinite-length TLVs under long-form identifiers',
    'C07-w4b': 'first pre-check: missed. C07: one-shot decode from a raw stream that hands out at most 16 octets per read, followed by a 40-octet tail',
    'C08-w4b': 'reported; a non-terminating change made the check itself run for hours (5 s of CPU per case): C08 now stops a worker after four hangs',
    'C10-w4a': 'first pre-check: missed. C10 types: untagged CHOICE components found through a tag map (SET member, behind an OPTIONAL, nested in a CHOICE)',
    'C10-w4b': 'first pre-check: missed. Constraint model: WITH COMPONENTS entry (field (c) PRESENT) = presence combined with a value constraint',
    'C11-w4a': 'first pre-check: missed. C11 corpus: single elements of 2**16+1, 2**20+1, 2**24+1 octets',
    'C11-w4b': 'first pre-check: missed by C11 (two decoders in turn on one source are C07 territory). C07 streaming clause: a new decoder per item on a source that cannot seek; the source must stay usable',
    'C12-w4a': 'first pre-check: missed. C12 part B: a "need more data" object handed to one consumer is not handed out by the other decoder and does not change later',
    'C12-w4b': 'first pre-check: missed, and instructive: the call carrying the option ran while the isolated baselines were being taken, so the sticky option tainted the baseline itself. Baselines of option-free calls are now taken first, in a process where no call has carried an option yet',
    'C13-w4b': 'first pre-check: missed. C13 clause (6): a value object carrying only part of the tags assigned to a field of the tagged type is refused or encoded with the tags of the field',
    'C14-w4a': 'first pre-check: missed. C14 derivation chains now contain constraints of different kinds spelled with the same arguments (VR(0,3) / SV(0,3))',
    'C14-w4b': 'first pre-check: missed. C14 part (d): size constrained SEQUENCE OF / SET OF that does not declare its member type',
    'C17-w4a': 'first pre-check: missed. C17: the same mapping with its keys in reverse order',
    'C17-w4b': 'first pre-check: missed. Universe: binary REALs with exponents 310..1023 (inside the float range, beyond 308)',
    'C18-w4a': 'first pre-check: missed. C18 shapes: SET OF / SEQUENCE OF whose member type is a user subclass of ANY',
    'C18-w4b': 'first pre-check: missed. C18 dimension: a second open type field governed by an unmapped value after one that resolves',
    'C19-w4a': 'first pre-check: missed. C19 alphabet: equal-length slice assignment whose last member is unacceptable (all or nothing)',
    'C19-w4b': 'first pre-check: missed, and instructive: the state digest sorted the position -> member dict, so two objects differing only in insertion order were MERGED although the library iterates that dict (index(), sort()). The digest used for state hashing now keeps insertion order',
    'C20-w4a': 'first pre-check: missed. C20 dates: both ends of the UTCTime range (1969, 2068); the text clause no longer assumes a century',
    'C20-w4b': 'first pre-check: missed. C20 part (b): five ways of handing a time to the encoder (value object, text + type, value object + type, SEQUENCE member from a mapping, SEQUENCE OF member from a list) must agree',
}
for sid, note in NOTES.items():
    p = os.path.join(ROOT, 'seeded', sid, 'meta.json')
    if not os.path.exists(p):
        print('missing', sid)
        continue
    m = json.load(open(p))
    m['note'] = note
    json.dump(m, open(p, 'w'), indent=1)
print('annotated', len(NOTES))
