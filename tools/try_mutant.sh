#!/bin/bash
# usage: tools/try_mutant.sh <patch.diff> [checks...]   (default: all quick checks)
# applies the patch to /repo, runs the repo test suite and the checks (PAR at a time), reverts. Prints which checks fire.
set -u
PATCH="$(realpath "$1")"; shift
CHECKS="${*:-C01 C02 C03 C04 C05 C06 C07 C08 C09 C10 C11 C12 C13 C14 C15 C16 C17 C18 C19 C20}"
cd /repo || exit 2
if ! git diff --quiet; then echo "/repo is dirty"; exit 2; fi
git apply "$PATCH" || { echo "patch does not apply"; exit 2; }
trap 'git -C /repo checkout -- . ; git -C /repo clean -fdq pyasn1' EXIT
T=$(/venv/bin/python -m pytest -q -p no:cacheprovider 2>&1 | tail -1)
echo "suite: $T"
cd /verif
TMP=$(mktemp -d)
one() { c=$1; out=$(bin/check $c --tier ${TIER:-quick} 2>&1); rc=$?; echo "$rc" > $2/$c.rc; echo "$out" > $2/$c.out; }
export -f one
echo $CHECKS | tr ' ' '\n' | xargs -P ${PAR:-3} -I{} bash -c "one {} $TMP"
FIRED=""
for c in $CHECKS; do
  rc=$(cat $TMP/$c.rc)
  if [ "$rc" != "0" ]; then FIRED="$FIRED $c"; n=$(grep -c '^VIOLATION' $TMP/$c.out); echo "  $c rc=$rc groups=$n: $(grep -A1 '^VIOLATION' $TMP/$c.out | grep clause | head -3 | tr '\n' ';' | cut -c1-300)"; fi
done
rm -rf $TMP
echo "FIRED:$FIRED"
