#!/bin/bash
# run every quick (or $1) check; print summary lines
TIER=${1:-quick}
cd "$(dirname "$0")/.."
for c in C01 C02 C03 C04 C05 C06 C07 C08 C09 C10 C11 C12 C13 C14 C15 C16 C17 C18 C19 C20; do
  bin/check $c --tier $TIER > /tmp/$c.out 2>&1
  rc=$?
  echo "rc=$rc $(tail -1 /tmp/$c.out) viol_groups=$(grep -c '^VIOLATION' /tmp/$c.out) known=$(grep -c '^KNOWN-FINDING' /tmp/$c.out)"
done
