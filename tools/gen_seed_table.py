#!/usr/bin/env python3
"""Regenerate the table of seeded changes (DESIGN.md section 11 and seeded/README.md) from seeded/*/meta.json."""
import glob, json, os
ROOT = os.path.dirname(os.path.dirname(os.path.abspath(__file__)))
rows = []
for p in sorted(glob.glob(os.path.join(ROOT, 'seeded', '*', 'meta.json'))):
    m = json.load(open(p))
    c = m.get('confirmed', {})
    ok = c.get('demo_rc_with_patch') == 1 and c.get('demo_rc_without_patch') == 0 and 'passed' in c.get('suite_with_patch', '') and 'failed' not in c.get('suite_with_patch', '')
    rows.append((m.get('seed_id'), m.get('property'), (m.get('summary') or '').replace('\n', ' ')[:230], (m.get('needs') or '').replace('\n', ' ')[:200],
                 'yes' if ok else 'NO', ' '.join(m.get('checks_fired', [])) or '-', m.get('note', '')))
out = ['| seed | property | change | needs | confirmed (suite green, demo fails/passes) | checks that report it (quick tier) | note |', '|---|---|---|---|---|---|---|']
for r in rows:
    out.append('| ' + ' | '.join(str(x).replace('|', '/') for x in r) + ' |')
text = '\n'.join(out)
open(os.path.join(ROOT, 'seeded', 'README.md'), 'w').write(
    '# Seeded property-breaking changes\n\nEach directory holds `patch.diff` (never committed to /repo), `demo.py` (fails with the change, passes without) '
    'and `meta.json`. Produced by independent sub-agents that saw only the property text and a scratch worktree. '
    'Evaluation: `tools/eval_seed.sh` (confirm in the scratch worktree, then `git -C /repo apply`, run the quick checks, `git -C /repo checkout -- .`). '
    'Waves 1-3 were run against every quick check; most of wave 4 against the property\'s own check plus a fixed subset (`checks_run` in meta.json) to fit the time left, so "reported by" is a lower bound there. '
    '`applies_to` in meta.json is the newest /repo commit the patch applies to (later `fix:` commits touch some of the same lines). '
    'A note says which check missed the change at first and what was strengthened.\n\n' + text + '\n')
# compact matrix for DESIGN.md section 11
comp = ['| seed | where (from the author\'s summary) | reported by (quick tier) | history |', '|---|---|---|---|']
for r in rows:
    where = r[2].split(':')[0].split(' (')[0][:90]
    comp.append('| %s | %s | %s | %s |' % (r[0], where.replace('|', '/'), r[5], (r[6] or '').replace('|', '/')[:260]))
open(os.path.join(ROOT, 'seeded', 'MATRIX.md'), 'w').write('\n'.join(comp) + '\n')
dp = os.path.join(ROOT, 'DESIGN.md')
d = open(dp).read()
if '<!-- MATRIX:BEGIN -->' in d:
    a = d.index('<!-- MATRIX:BEGIN -->') + len('<!-- MATRIX:BEGIN -->')
    b = d.index('<!-- MATRIX:END -->')
    open(dp, 'w').write(d[:a] + '\n' + '\n'.join(comp) + '\n' + d[b:])
n_all = len(rows)
n_rep = sum(1 for r in rows if r[5] != '-')
print('%d seeds, %d reported by at least one quick check, %d not: %s' % (n_all, n_rep, n_all - n_rep, [r[0] for r in rows if r[5] == '-']))
