#!/usr/bin/env python3
"""Print (and splice into DESIGN.md between <!-- COVERAGE:BEGIN/END -->) one line per check from evidence/*.json:
level, tier, evaluations, distinct non-trivial cases, known-finding cases absorbed, wall time."""
import glob
import json
import os
ROOT = os.path.dirname(os.path.dirname(os.path.abspath(__file__)))
rows = ['| check | level | tier | evaluations | distinct non-trivial | attributed to known findings | wall (s) |', '|---|---|---|---|---|---|---|']
for p in sorted(glob.glob(os.path.join(ROOT, 'evidence', 'C*.json'))):
    e = json.load(open(p))
    c = e.get('coverage', {})
    kf = c.get('known_findings_absorbed', {})
    kfs = ', '.join('%s: %s' % (k, v) for k, v in sorted(kf.items())) if isinstance(kf, dict) else str(kf)
    rows.append('| %s | %s | %s | %s | %s | %s | %s |' % (e['property_id'], e.get('level'), e.get('tier'), c.get('evaluations'),
                                                   c.get('distinct_nontrivial'), kfs or '-', e.get('wall_s')))
text = '\n'.join(rows)
dp = os.path.join(ROOT, 'DESIGN.md')
d = open(dp).read()
if '<!-- COVERAGE:BEGIN -->' in d:
    a = d.index('<!-- COVERAGE:BEGIN -->') + len('<!-- COVERAGE:BEGIN -->')
    b = d.index('<!-- COVERAGE:END -->')
    open(dp, 'w').write(d[:a] + '\n' + text + '\n' + d[b:])
print(text)
