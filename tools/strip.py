import ast, sys
def strip(path, lo=0, hi=10**9):
    src=open(path).read()
    out=[]
    tree=ast.parse(src)
    doclines=set()
    for node in ast.walk(tree):
        if isinstance(node,(ast.FunctionDef,ast.ClassDef,ast.Module)):
            b=node.body
            if b and isinstance(b[0],ast.Expr) and isinstance(getattr(b[0],'value',None),ast.Constant) and isinstance(b[0].value.value,str):
                for l in range(b[0].lineno,b[0].end_lineno+1): doclines.add(l)
    for i,l in enumerate(src.splitlines(),1):
        if i in doclines or i<lo or i>hi: continue
        if l.strip().startswith('#'): continue
        if not l.strip(): continue
        out.append('%d\t%s'%(i,l))
    return '\n'.join(out)
if __name__=='__main__':
    a=sys.argv
    print(strip(a[1], int(a[2]) if len(a)>2 else 0, int(a[3]) if len(a)>3 else 10**9))
