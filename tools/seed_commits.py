#!/usr/bin/env python3
"""For every seeded change record in meta.json the newest /repo commit its patch.diff applies to ('applies_to'):
later fix: commits may touch the same lines, so a patch is evaluated against the tree it was written for.
usage: tools/seed_commits.py <scratch worktree of /repo>"""
import glob
import json
import os
import subprocess
import sys
ROOT = os.path.dirname(os.path.dirname(os.path.abspath(__file__)))
wt = sys.argv[1]
commits = subprocess.check_output(['git', '-C', '/repo', 'rev-list', '--first-parent', 'HEAD']).decode().split()
seeds = sorted(glob.glob(os.path.join(ROOT, 'seeded', '*', 'patch.diff')))
todo = dict((p, None) for p in seeds)
for c in commits:
    if not any(v is None for v in todo.values()):
        break
    subprocess.check_call(['git', '-C', wt, 'checkout', '-q', '--detach', c])
    for p in seeds:
        if todo[p] is None and subprocess.call(['git', '-C', wt, 'apply', '--check', p], stderr=subprocess.DEVNULL) == 0:
            todo[p] = c
for p, c in todo.items():
    m = os.path.join(os.path.dirname(p), 'meta.json')
    d = json.load(open(m))
    d['applies_to'] = c[:12] if c else None
    json.dump(d, open(m, 'w'), indent=1)
print('newest commit each patch applies to:', sorted(set(v[:7] if v else 'none' for v in todo.values())))
subprocess.check_call(['git', '-C', wt, 'checkout', '-q', '--detach', commits[0]])
