#!/usr/bin/env python3
"""usage: tools/make_seed_prompts.py <wave-prefix> <worktree-root> [ids...]
Writes <worktree-root>/prompt_<prefix>_<NN>.txt for each property: the property text (from properties.jsonl), the
scratch worktree to use, the list of changes tried before (summaries from seeded/*/meta.json, so the next wave
looks elsewhere) and the deliverables.  Nothing about the checks themselves goes into a prompt."""
import glob
import json
import os
import sys

ROOT = os.path.dirname(os.path.dirname(os.path.abspath(__file__)))
prefix, wtroot = sys.argv[1], sys.argv[2]
want = set(sys.argv[3:])
props = [json.loads(l) for l in open(os.path.join(ROOT, 'properties.jsonl'))]
tried = []
for m in sorted(glob.glob(os.path.join(ROOT, 'seeded', '*', 'meta.json'))):
    d = json.load(open(m))
    tried.append('- (%s) %s' % (d.get('property', '?'), ' '.join(str(d.get('summary', '')).split())[:330]))
for m in sorted(glob.glob(os.environ.get('EXTRA_META', '/nonexistent/*'))):
    d = json.load(open(m))
    line = '- (%s) %s' % (d.get('property', '?'), ' '.join(str(d.get('summary', '')).split())[:330])
    if line not in tried:
        tried.append(line)
for p in props:
    pid = p['id']
    if want and pid not in want:
        continue
    nn = pid[1:]
    wt = '%s/%s%s' % (wtroot, prefix, nn)
    mech = '; '.join('%s (%s)' % (m['name'], m['where']) for m in p['anchors'].get('mechanism', []))
    text = """You are working in a scratch git worktree of the pure-Python ASN.1 library pyasn1 at {wt} (run Python with /venv/bin/python; run the test suite with: cd {wt} && /venv/bin/python -m pytest -q -p no:cacheprovider  -- 1149 tests, a few seconds; from inside {wt}, `import pyasn1` resolves to {wt}/pyasn1 when the script sits at the worktree root). Work ONLY inside {wt}. Do not read or touch /repo, /verif or any other worktree.

Here is a semantic property of the library that users rely on:

Property {pid} - {title}

Statement: {statement}

Quantified over: {quant}

Why the existing tests cannot settle it: {why}

Code anchors: files {files}; mechanisms: {mech}


ALREADY TRIED in earlier rounds (do NOT repeat these sites/mechanisms or trivial variations of them; find something different, ideally in code these do not touch):
{tried}

Go for changes that are HARDER to notice than the ones above: ones that only matter for a specific combination of two or three features (tagging x length form x container kind x optionality x codec option), for the second/third call on a reused object or schema, for a particular position inside a nested structure, for one particular boundary value or string length, for a particular alternation of operations, or for a documented but rarely used option or entry point (options passed to encode()/decode(), class-level declarations, substrateFun, streaming vs one-shot API, typeMap/tagMap overrides, legacy attribute names).


TASK. Produce TWO independent, realistic changes (call them A and B, at different sites / with different mechanisms) to the library source under {wt}/pyasn1/ -- the kind of defect a maintainer could plausibly introduce during a refactoring or "optimisation": an off-by-one in cursor/offset/length logic, a wrong constant or table entry, a dropped or misplaced rewind/seek, state hoisted to a shared object or cached across calls, a swapped comparison, a check moved after the thing it guards, a lost `continue`, aliasing instead of copying, etc. Each change must BREAK the property above, while the code still imports and the COMPLETE existing test suite still passes with the change applied. Prefer changes that need something specific to manifest over ones any smoke test would catch.

DELIVERABLES (all inside {wt}), for X in {{A, B}}:
 1. {wt}/patchX.diff : the change as a unified diff against the unmodified tree (produce it with `git diff -- pyasn1 > patchX.diff` while only change X is applied; then `git checkout -- pyasn1` before working on the other one). At the end leave the tree clean (no change applied).
 2. {wt}/demoX.py : a small stand-alone program using only pyasn1 and the standard library that exits with status 1 and prints what went wrong when the property is violated and exits 0 otherwise. It must FAIL (exit 1) with patchX applied and PASS (exit 0) on the unmodified tree -- verify both (git apply patchX.diff / git checkout -- pyasn1).
 3. {wt}/metaX.json : {{"property": "{pid}", "summary": "<what was changed and where>", "needs": "<what it takes for the defect to manifest>", "files": [...], "tests_pass": true}}
Confirm explicitly for each of A and B: (i) full test suite passes with the patch applied, (ii) demo fails with the patch, (iii) demo passes without it. If you cannot find a change that keeps the suite green, say so rather than weakening the requirement. If you notice behaviour of the UNMODIFIED tree that already breaks the property, list it briefly at the end (and keep your demos clear of it). Finish with a brief report.
""".format(wt=wt, pid=pid, title=p['title'], statement=p['statement'], quant=p['quantifier']['text'],
           why=p['why_tests_cant'], files=', '.join(p['anchors']['files']), mech=mech, tried='\n'.join(tried))
    out = os.path.join(wtroot, 'prompt_%s_%s.txt' % (prefix, nn))
    open(out, 'w').write(text)
    print(out, len(text))
