#!/usr/bin/env python3
"""Regenerate MANIFEST.json from the table below (kept in one place so it is always valid)."""
import json, os
ROOT = os.path.dirname(os.path.dirname(os.path.abspath(__file__)))
BASE = json.load(open('/root/.vp/BASELINE.json'))['cmd'] if os.path.exists('/root/.vp/BASELINE.json') else \
    'cd /repo && /venv/bin/python -m pytest -ra -q -p no:cacheprovider --timeout=900 --continue-on-collection-errors'

CHECKS = {}

def add(pid, category, technique, text, note, ref, thorough=True):
    CHECKS[pid] = {
        'property_id': pid,
        'quick_cmd': 'bin/check %s --tier quick' % pid,
        'evidence_file': 'evidence/%s.json' % pid,
        'replay_cmd_template': 'bin/check %s --replay {path}' % pid,
        'engine': 'mc',
        'level_claimed': {'category': category, 'text': text, 'design_ref': ref},
        'level_note': note,
        'technique': technique,
    }
    if thorough:
        CHECKS[pid]['thorough_cmd'] = 'bin/check %s --tier thorough' % pid

TB = 'trusted base: reference model mc/model/x690.py (validated by selftest), CPython 3.12, harness binding mc/bind'

add('C01', 'exploration', 'bounded exhaustive product enumeration (small-scope universe x encoder modes) on the real codec',
    'Every (type, value) of a bounded ASN.1 universe x every BER encoder mode is encoded and decoded by the real library and compared with the abstract value and with an independent X.690 reader; exhaustive within the stated bounds, no sampling.',
    TB, 'DESIGN.md 4/C01')
add('C02', 'exploration', 'bounded exhaustive product enumeration over (encoder, decoder) pairs on the real codec',
    'Every (type, value) of the bounded universe x the five (encoder, decoder) pairs; decoders that accept the same bytes must agree.',
    TB, 'DESIGN.md 4/C02')
add('C03', 'exploration', 'bounded exhaustive enumeration against an independent X.690 reference encoder/reader',
    'DER output compared byte-for-byte with an independent DER encoder; BER/CER output read by an independent reader; CER form rules checked; exhaustive over the bounded universe.',
    TB, 'DESIGN.md 4/C03')
add('C07', 'exploration', 'bounded exhaustive enumeration of encodings x tails and of concatenated streams',
    'Every reference encoding of the bounded universe x every tail of a fixed set, one-shot and streaming; exact remainder and stream position checked.',
    TB, 'DESIGN.md 4/C07')

def main():
    props = [json.loads(l)['id'] for l in open(os.path.join(ROOT, 'properties.jsonl'))]
    extra = os.path.join(ROOT, 'tools', 'manifest_extra.py')
    if os.path.exists(extra):
        exec(open(extra).read(), {'add': add, 'TB': TB, 'CHECKS': CHECKS})
    na = []
    for p in props:
        if p not in CHECKS:
            na.append({'property_id': p, 'reason': 'check not built yet (work in progress; see DESIGN.md section 4)'})
    m = {
        'version': 1,
        'setup_cmd': 'bin/selftest',
        'hooks': {'guard': 'PYASN1_VERIF', 'enable': 'none needed: all instrumentation is harness-side (monkeypatching in the checking process)',
                  'baseline_off_cmd': BASE.replace(' --junitxml=<file>', ''), 'source_commits': [], 'add_only': True},
        'engines': [{'name': 'mc', 'path': 'mc/', 'serves_properties': sorted(CHECKS),
                     'kind_free_text': 'hand-written bounded exhaustive explorers (product enumeration, deviation-bounded choice exploration, explicit-state BFS, interleaving exploration) driving the real pyasn1 code against an independent reference model'}],
        'checks': [CHECKS[p] for p in sorted(CHECKS)],
        'not_applicable': na,
        'notes': 'All checks run /venv/bin/python against /repo (editable install), PYTHONHASHSEED=0. See DESIGN.md.',
    }
    json.dump(m, open(os.path.join(ROOT, 'MANIFEST.json'), 'w'), indent=1)
    print('wrote MANIFEST.json with', len(CHECKS), 'checks;', len(na), 'not yet claimed')

main()
