#!/bin/bash
# usage: tools/eval_seed.sh <worktree> <A|B> <seed-id> [checks...]
# 1. confirms in the scratch worktree: suite passes with the patch, demo fails with / passes without
# 2. runs the checks against /repo with the patch applied (tools/try_mutant.sh)
# 3. stores patch, demo, meta under /verif/seeded/<seed-id>/
set -u
WT="$1"; X="$2"; ID="$3"; shift 3
P="$WT/patch$X.diff"; D="$WT/demo$X.py"; M="$WT/meta$X.json"
[ -f "$P" ] && [ -f "$D" ] || { echo "missing deliverables in $WT"; exit 2; }
cd "$WT" && git checkout -q -- pyasn1 && git apply "$P" || { echo "patch does not apply in worktree"; exit 2; }
SUITE=$(/venv/bin/python -m pytest -q -p no:cacheprovider 2>&1 | tail -1)
/venv/bin/python "$D" > /tmp/demo_with.txt 2>&1; RC_WITH=$?
git checkout -q -- pyasn1
/venv/bin/python "$D" > /tmp/demo_without.txt 2>&1; RC_WITHOUT=$?
echo "confirm: suite=[$SUITE] demo_with_patch_rc=$RC_WITH demo_without_rc=$RC_WITHOUT"
OUT=$(/verif/tools/try_mutant.sh "$P" "$@")
echo "$OUT"
mkdir -p /verif/seeded/$ID
cp "$P" /verif/seeded/$ID/patch.diff; cp "$D" /verif/seeded/$ID/demo.py
/venv/bin/python - "$M" "$ID" "$SUITE" "$RC_WITH" "$RC_WITHOUT" "$(echo "$OUT" | grep '^FIRED:')" "$*" <<'PY'
import json,sys
m=json.load(open(sys.argv[1])) if sys.argv[1] else {}
m.update({'seed_id': sys.argv[2], 'confirmed': {'suite_with_patch': sys.argv[3], 'demo_rc_with_patch': int(sys.argv[4]), 'demo_rc_without_patch': int(sys.argv[5])},
          'checks_fired': sys.argv[6].replace('FIRED:','').split(), 'checks_run': sys.argv[7].split() or 'all quick',
          'how_run': 'git -C /repo apply patch.diff; bin/check <ID> --tier quick for each check; git -C /repo checkout -- .'})
json.dump(m, open('/verif/seeded/%s/meta.json'%sys.argv[2],'w'), indent=1)
PY
