"""Self-validation of the trusted base: the reference model against hand-computed / standard vectors.

Run: bin/selftest   (no pyasn1 involved in the model part)
"""
import sys

from mc.model import x690 as M
from mc.model import universe as U
from mc.model import constraints as C
from mc.model import time680 as TM
from mc.core import explore as X
from fractions import Fraction

FAIL = []


def check(name, got, want):
    if got != want:
        FAIL.append('%s: got %r want %r' % (name, got.hex() if isinstance(got, bytes) else got,
                                            want.hex() if isinstance(want, bytes) else want))


def h(s):
    return bytes.fromhex(s.replace(' ', '').replace('\n', ''))


INT, BOOL, NULL, OID, BITS, OCTS, REAL = U.INT, U.BOOL, U.NULL, U.OID, U.BITS, U.OCTS, U.REAL

# --- primitive DER vectors (X.690 clause 8 examples and hand computation) ---
for v, e in [(0, '020100'), (127, '02017f'), (128, '02020080'), (256, '02020100'), (-128, '020180'), (-129, '0202ff7f'),
             (-1, '0201ff'), (32767, '02027fff'), (32768, '0203008000'), (-32768, '02028000'), (-32769, '0203ff7fff'),
             (2 ** 63, '0209008000000000000000')]:
    check('INTEGER %d' % v, M.der(INT, v), h(e))
check('TRUE', M.der(BOOL, True), h('0101ff'))
check('FALSE', M.der(BOOL, False), h('010100'))
check('NULL', M.der(NULL, None), h('0500'))
check('OID 2.100.3', M.der(OID, (2, 100, 3)), h('0603813403'))
check('OID rsadsi', M.der(OID, (1, 2, 840, 113549)), h('06062a864886f70d'))
check('OID 2.999', M.der(OID, (2, 999)), h('06028837'))
check('BITS 0A3B5F291CD', M.der(BITS, bin(0x0A3B5F291CD)[2:].zfill(44)), h('0307040A3B5F291CD0'))
check('BITS empty', M.der(BITS, ''), h('030100'))
check('BITS 1', M.der(BITS, '1'), h('03020780'))
check('REAL 0.15625', M.der(REAL, (5, 2, -5)), h('090380fb05'))
check('REAL 1', M.der(REAL, (1, 2, 0)), h('0903800001'))
check('REAL 10 (even mantissa normalised)', M.der(REAL, (10, 2, 0)), h('0903800105'))
check('REAL -inf', M.der(REAL, '-inf'), h('090141'))
check('REAL 0', M.der(REAL, (0, 10, 0)), h('0900'))
check('REAL 2^-129 (2-octet exponent)', M.der(REAL, (1, 2, -129)), h('090481ff7f01'))
check('UTF8', M.der(U.UTF8, 'é€'), h('0c05c3a9e282ac'))
check('BMP', M.der(U.STR('BMPString'), 'A中'), h('1e0400414e2d'))
check('long length 201', M.der(OCTS, b'\x01' * 201)[:4], h('0481c901'))
check('tag 31', M.der(U.I(31, INT, 'A'), 5), h('5f1f0105'))
check('tag 128', M.der(U.I(128, INT), 5), h('9f81000105'))
check('tag 2^32', M.der(U.E(2 ** 32, INT, 'P'), 5), h('ff9080808000 03 020105'))
check('explicit over implicit', M.der(U.E(1, U.I(2, OCTS)), b'hi'), h('a104 82026869'))
SEQ = ('SEQ', (('name', U.STR('IA5String'), 'R', None), ('ok', BOOL, 'R', None)))
check('SEQUENCE Smith', M.der(SEQ, {'name': 'Smith', 'ok': True}), h('300a1605536d6974680101ff'))
check('SEQUENCE default omitted', M.der(('SEQ', (('a', INT, 'R', None), ('b', BOOL, 'D', False))), {'a': 1, 'b': False}), h('3003020101'))
check('SET by tag', M.der(('SET', (('a', U.E(5, INT), 'R', None), ('i', OCTS, 'R', None))), {'a': 1, 'i': b'x'}), h('3108040178a503020101'))
check('SET OF sorted padded', M.der(('SETOF', OCTS), [b'b', b'a', b'ab', b'']), h('310c 0400 040161 040162 04026162'))
check('SET class order', M.der(('SET', (('c', U.I(0, INT), 'R', None), ('a', U.I(9, INT, 'A'), 'R', None), ('u', INT, 'R', None), ('p', U.I(1, INT, 'P'), 'R', None))),
                               {'c': 1, 'a': 2, 'u': 3, 'p': 4}), h('310c 020103 490102 800101 c10104'))
CH = ('CHOICE', (('x', U.I(7, INT)), ('y', U.I(3, OCTS))))
check('SET with CHOICE DER dynamic', M.der(('SET', (('c', CH, 'R', None), ('z', U.I(5, BOOL), 'R', None))), {'c': ('x', 1), 'z': True}), h('3106 8501ff 870101'))
check('SET with CHOICE CER static', M.cer(('SET', (('c', CH, 'R', None), ('z', U.I(5, BOOL), 'R', None))), {'c': ('x', 1), 'z': True}), h('3180 870101 8501ff 0000'))
check('CER octets 1001', M.cer(OCTS, b'Q' * 1001), h('2480048203e8' + '51' * 1000 + '0401510000'))
check('CER bits 8001 fragments', M.cer(BITS, '1' * 8001)[:8], h('2380038203e800ff'))
check('CER explicit primitive', M.cer(U.E(0, BOOL), False), h('a0800101000000'))

# --- X.690 Annex A personnel record: the reader must recover the value from the standard's bytes ---
VS = U.STR('VisibleString')
NAME = U.I(1, ('SEQ', (('givenName', VS, 'R', None), ('initial', VS, 'R', None), ('familyName', VS, 'R', None))), 'A')
DATE = U.I(3, VS, 'A')
CHILD = ('SET', (('name', NAME, 'R', None), ('dateOfBirth', U.E(0, DATE), 'R', None)))
REC = U.I(0, ('SET', (('name', NAME, 'R', None), ('title', U.E(0, VS), 'R', None), ('number', U.I(2, INT, 'A'), 'R', None),
                      ('dateOfHire', U.E(1, DATE), 'R', None), ('nameOfSpouse', U.E(2, NAME), 'R', None),
                      ('children', U.I(3, ('SEQOF', CHILD)), 'D', M.freeze([])))), 'A')
ANNEX = h('''60 81 85 61 10 1A 04 4A 6F 68 6E 1A 01 50 1A 05 53 6D 69 74 68 A0 0A 1A 08 44 69 72 65 63 74 6F 72 42 01 33
 A1 0A 43 08 31 39 37 31 30 39 31 37 A2 12 61 10 1A 04 4D 61 72 79 1A 01 54 1A 05 53 6D 69 74 68 A3 42
 31 1F 61 11 1A 05 52 61 6C 70 68 1A 01 54 1A 05 53 6D 69 74 68 A0 0A 43 08 31 39 35 37 31 31 31 31
 31 1F 61 11 1A 05 53 75 73 61 6E 1A 01 42 1A 05 4A 6F 6E 65 73 A0 0A 43 08 31 39 35 39 30 37 31 37''')
VAL = {'name': {'givenName': 'John', 'initial': 'P', 'familyName': 'Smith'}, 'title': 'Director', 'number': 51,
       'dateOfHire': '19710917', 'nameOfSpouse': {'givenName': 'Mary', 'initial': 'T', 'familyName': 'Smith'},
       'children': [{'name': {'givenName': 'Ralph', 'initial': 'T', 'familyName': 'Smith'}, 'dateOfBirth': '19571111'},
                    {'name': {'givenName': 'Susan', 'initial': 'B', 'familyName': 'Jones'}, 'dateOfBirth': '19590717'}]}
assert M.legal(REC)
check('Annex A read', M.read(REC, ANNEX), VAL)
from mc.model import emu
check('Annex A encode (declaration order, as printed in X.690)', M.Encoder(emu.PyBER()).enc(REC, VAL).hex(), ANNEX.hex().replace('0101ff', '0101ff'))
d = M.der(REC, VAL)
check('Annex A DER re-read', M.read(REC, d), VAL)
check('Annex A DER member order', [n.tag() for n in M.tlv_tree(d).children], [('A', 1), ('A', 2), ('C', 0), ('C', 1), ('C', 2), ('C', 3)])

# --- reader accepts BER variety / rejects junk ---
check('constructed bit string', M.read(BITS, h('2380 0303000a3b 0305045f291cd0 0000')), bin(0x0A3B5F291CD)[2:].zfill(44))
check('long form length with leading zero', M.read(INT, h('02820001 05')), 5)
check('TRUE any nonzero', M.read(BOOL, h('010101')), True)
for junk in ('0201', '020105ff', '0500 00'.replace(' ', ''), '03020800', '06028001', '30800201 01'.replace(' ', '')):
    try:
        M.read(INT if junk.startswith('02') else NULL if junk.startswith('05') else BITS if junk.startswith('03') else OID if junk.startswith('06') else ('SEQOF', INT), h(junk))
        FAIL.append('reader accepted junk %s' % junk)
    except M.ReadError:
        pass

# --- encoder/reader agreement + idempotence over the quick universe ---
n = 0
for sl in ('LEAF', 'TAGS', 'REC', 'OF', 'CH', 'NEST', 'BIG'):
    k = -1
    for T, v in U.SLICES[sl]('quick'):
        k += 1
        if sl in ('REC', 'TAGS') and k % 7:
            continue
        if not M.legal(T) or not M.welltyped(T, v):
            FAIL.append('universe produced illegal/ill-typed case %r' % (T,))
            continue
        if isinstance(v, tuple) and T[0] == 'REAL' and v[1] == 10 and v[0]:
            continue
        try:
            for enc in (M.der, M.cer):
                e = enc(T, v)
                back = M.read(T, e)
                if not M.values_equal(T, back, v):
                    FAIL.append('read(%s(T,v)) != v for %s %r' % (enc.__name__, M.show_type(T), v))
                if enc is M.der:
                    if M.der(T, back) != e:
                        FAIL.append('der not idempotent for %s' % M.show_type(T))
                    if T != U.ANY and M.der_rules_tree(e):
                        FAIL.append('der output breaks DER form rules for %s' % M.show_type(T))
                else:
                    bad = M.cer_rules(T, e)
                    if bad:
                        FAIL.append('cer output breaks CER rules %s for %s' % (bad[:1], M.show_type(T)))
            n += 1
        except M.ModelError as ex:
            if 'base-10' not in str(ex):
                FAIL.append('model error %s for %s' % (ex, M.show_type(T)))

# --- constraints evaluator ---
check('AND', C.admits_raw(('AND', ('VR', 0, 3), ('NOT', ('SV', 2))), 2), False)
check('OR', C.admits_raw(('OR', ('SV', 9), ('VR', 0, 3)), 3), True)
check('SZ+PA', C.admits_raw(('AND', ('SZ', 1, 2), ('PA', 'a', 'b')), 'ab'), True)
check('WC', C.admits_raw(('WC', ('x', 'P'), ('y', 'A')), {'x': 1}), True)

# --- X.680 time reader ---
check('GT fraction of hour', TM.read_generalized('2000022912.5Z')[0] - TM.read_generalized('200002291230Z')[0], Fraction(0))
check('GT offset', TM.read_generalized('20000229120000+0130')[0], TM.read_generalized('20000229103000Z')[0])
check('UT century', TM.read_utc('491231235959Z')[0] > TM.read_utc('500101000000Z')[0], True)

# --- explorer: exact execution counts for a known choice tree ---
def run(ch):
    return (ch(3, 'a'), ch(2, 'b'), ch(2, 'c'))
seen = []
X.explore(run, 1, lambda ch, obs: seen.append(obs))
check('E2 bound 1', sorted(seen), sorted([(0, 0, 0), (1, 0, 0), (2, 0, 0), (0, 1, 0), (0, 0, 1)]))
seen = []
X.explore(run, 3, lambda ch, obs: seen.append(obs))
check('E2 bound 3 = full product', len(set(seen)), 12)
check('E2 no duplicate executions', len(seen), 12)

if FAIL:
    print('SELFTEST FAILED (%d):' % len(FAIL))
    for f in FAIL[:40]:
        print('  ' + f)
    sys.exit(1)
print('selftest ok: %d universe cases cross-checked, vectors and Annex A example agree' % n)
